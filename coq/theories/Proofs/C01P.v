(** * C01P: every kernel on a one-hot mask (resp. a pair of distinct bits) is
    the documented matrix lifted to that bit (pair), for every bit position,
    every state and every index.  Real-number instance. *)
From Coq Require Import Reals Lra Lia.
From QV Require Import Spec ScalarR BitsP.
Open Scope R_scope.

Notation vecR := (@vec R).
Notation K := (kernel Rops).

Ltac unf :=
  unfold lift1, m2_00, m2_01, m2_10, m2_11, cadd, cmul, cneg, cconj, cscale, csub, rotate,
         c0, c1, ci, re, im, rC, iC, cosh, sinh, exp_i_pi_4, half_phase, half_phase_mul, cis;
  cbn [fst snd f0 f1 f2 fhalf fisq2 fadd fsub fmul fdiv fneg fcos fsin Rops].

Ltac creal :=
  cbn [fst snd];
  match goal with
  | |- (_, _) = (_, _) => f_equal; ring
  | |- ?x = ?y =>
      rewrite (surjective_pairing x); rewrite (surjective_pairing y); f_equal;
      cbn [fst snd]; ring
  end.

Ltac destruct_psis psi :=
  repeat match goal with
         | |- context [psi ?i] =>
             let x := fresh "x" in let y := fresh "y" in destruct (psi i) as [x y]
         end.
Ltac fin psi := cbv iota; unf; destruct_psis psi; creal.

(** rewriting the index arithmetic of a one-hot mask in terms of the bit *)
Ltac bit_case idx b :=
  let H := fresh "Hb" in
  destruct (N.testbit idx b) eqn:H;
  [ rewrite ?(lxor_pow2_set idx b H), ?(land_pow2_set idx b H), ?(setbit_id idx b H)
  | rewrite ?(lxor_pow2_clear idx b H), ?(land_pow2_clear idx b H), ?(clearbit_id idx b H) ].

Section SingleBit.
  Variable b : N.
  Variable psi : vecR.
  Variable idx : N.

  Lemma pow2_neq0 : N.eqb (2 ^ b) 0 = false.
  Proof. apply N.eqb_neq. apply N.pow_nonzero. discriminate. Qed.

  Lemma k_x : K (AX (2 ^ b)) psi idx = lift1 Rops (doc_x Rops) b psi idx.
  Proof.
    unfold kernel, doc_x. unf. bit_case idx b.
    - fin psi.
    - fin psi.
  Qed.

  Lemma k_z : K (AZ (2 ^ b)) psi idx = lift1 Rops (doc_z Rops) b psi idx.
  Proof.
    unfold kernel, doc_z. rewrite odd_bits_land_pow2. unf.
    destruct (N.testbit idx b) eqn:Hb.
    - rewrite (setbit_id idx b Hb).
      fin psi.
    - rewrite (clearbit_id idx b Hb).
      fin psi.
  Qed.

  Lemma y_ipow_pow2 : y_ipow (2 ^ b) = N.lxor 2 (N.ones 32).
  Proof. unfold y_ipow. rewrite popcount_pow2. reflexivity. Qed.

  Lemma k_y : K (AY (2 ^ b)) psi idx = lift1 Rops (doc_y Rops) b psi idx.
  Proof.
    unfold kernel, doc_y. rewrite odd_bits_land_pow2, y_ipow_pow2. unf.
    destruct (N.testbit idx b) eqn:Hb.
    - rewrite (lxor_pow2_set idx b Hb), (setbit_id idx b Hb).
      change (N.testbit (N.lxor 2 (N.ones 32)) 1) with false.
      change (N.testbit (N.lxor 2 (N.ones 32)) 0) with true. cbv iota.
      fin psi.
    - rewrite (lxor_pow2_clear idx b Hb), (clearbit_id idx b Hb).
      change (N.testbit (N.lxor (N.lxor 2 (N.ones 32)) 2) 1) with true.
      change (N.testbit (N.lxor (N.lxor 2 (N.ones 32)) 2) 0) with true. cbv iota.
      fin psi.
  Qed.

  Lemma st_count_pow2 dg :
    st_count (2 ^ b) dg idx =
    if N.testbit idx b then (if dg then neg64 1 else 1)%N else 0%N.
  Proof.
    unfold st_count. rewrite popcount_land_pow2.
    destruct (N.testbit idx b), dg; reflexivity.
  Qed.

  Lemma k_s : K (AS (2 ^ b) false) psi idx = lift1 Rops (doc_s Rops) b psi idx.
  Proof.
    unfold kernel, doc_s. rewrite st_count_pow2. unf.
    destruct (N.testbit idx b) eqn:Hb.
    - rewrite (setbit_id idx b Hb). cbn [N.testbit Pos.testbit].
      fin psi.
    - rewrite (clearbit_id idx b Hb). cbn [N.testbit].
      fin psi.
  Qed.

  Lemma k_sdg : K (AS (2 ^ b) true) psi idx = lift1 Rops (doc_sdg Rops) b psi idx.
  Proof.
    unfold kernel, doc_sdg. rewrite st_count_pow2. unf.
    destruct (N.testbit idx b) eqn:Hb.
    - rewrite (setbit_id idx b Hb).
      change (N.testbit (neg64 1) 1) with true. change (N.testbit (neg64 1) 0) with true. cbv iota.
      fin psi.
    - rewrite (clearbit_id idx b Hb). cbn [N.testbit].
      fin psi.
  Qed.

  Lemma k_t : K (AT (2 ^ b) false) psi idx = lift1 Rops (doc_t Rops) b psi idx.
  Proof.
    unfold kernel, doc_t. rewrite st_count_pow2. unf.
    destruct (N.testbit idx b) eqn:Hb.
    - rewrite (setbit_id idx b Hb).
      change (N.shiftr 1 1) with 0%N. cbn [N.testbit Pos.testbit].
      fin psi.
    - rewrite (clearbit_id idx b Hb). change (N.shiftr 0 1) with 0%N. cbn [N.testbit].
      fin psi.
  Qed.

  Lemma k_tdg : K (AT (2 ^ b) true) psi idx = lift1 Rops (doc_tdg Rops) b psi idx.
  Proof.
    unfold kernel, doc_tdg. rewrite st_count_pow2. unf.
    destruct (N.testbit idx b) eqn:Hb.
    - rewrite (setbit_id idx b Hb).
      change (N.testbit (neg64 1) 0) with true.
      change (N.testbit (N.shiftr (neg64 1) 1) 1) with true.
      change (N.testbit (N.shiftr (neg64 1) 1) 0) with true. cbv iota.
      fin psi.
    - rewrite (clearbit_id idx b Hb). change (N.shiftr 0 1) with 0%N. cbn [N.testbit].
      fin psi.
  Qed.

  Lemma k_h : K (AH1 (2 ^ b)) psi idx = lift1 Rops (doc_h Rops) b psi idx.
  Proof.
    unfold kernel, doc_h. rewrite land_pow2_eq0. unf.
    destruct (N.testbit idx b) eqn:Hb; cbn [negb].
    - rewrite (lxor_pow2_set idx b Hb), (setbit_id idx b Hb).
      fin psi.
    - rewrite (lxor_pow2_clear idx b Hb), (clearbit_id idx b Hb).
      fin psi.
  Qed.

  Variable theta : R.

  Lemma k_rx : K (ARX (2 ^ b) (half_phase Rops theta)) psi idx = lift1 Rops (doc_rx Rops theta) b psi idx.
  Proof.
    unfold kernel, doc_rx. unf.
    destruct (N.testbit idx b) eqn:Hb.
    - rewrite (lxor_pow2_set idx b Hb), (setbit_id idx b Hb).
      fin psi.
    - rewrite (lxor_pow2_clear idx b Hb), (clearbit_id idx b Hb).
      fin psi.
  Qed.

  Lemma k_ry : K (ARY (2 ^ b) (half_phase Rops theta)) psi idx = lift1 Rops (doc_ry Rops theta) b psi idx.
  Proof.
    unfold kernel, doc_ry. rewrite land_pow2_eq0. unf.
    destruct (N.testbit idx b) eqn:Hb; cbn [negb].
    - rewrite (lxor_pow2_set idx b Hb), (setbit_id idx b Hb).
      fin psi.
    - rewrite (lxor_pow2_clear idx b Hb), (clearbit_id idx b Hb).
      fin psi.
  Qed.

  Lemma k_rz : K (ARZ (2 ^ b) (half_phase Rops theta)) psi idx = lift1 Rops (doc_rz Rops theta) b psi idx.
  Proof.
    unfold kernel, doc_rz. rewrite land_pow2_eq0. unf.
    destruct (N.testbit idx b) eqn:Hb; cbn [negb].
    - rewrite (setbit_id idx b Hb).
      fin psi.
    - rewrite (clearbit_id idx b Hb).
      fin psi.
  Qed.
End SingleBit.

(** ** two-qubit kernels on a pair of distinct bit positions (adjacent or not) *)
Section Pair.
  Variables a b : N.
  Hypothesis Hab : a <> b.
  Variable psi : vecR.
  Variable idx : N.
  Let m := N.lor (2 ^ a) (2 ^ b).

  Lemma put2_bits l k :
    N.testbit (put2 idx a b l) k =
    if N.eqb b k then Nat.odd (Nat.div2 l)
    else if N.eqb a k then Nat.odd l else N.testbit idx k.
  Proof.
    unfold put2.
    destruct (Nat.odd l), (Nat.odd (Nat.div2 l));
      rewrite ?testbit_setbit, ?testbit_clearbit;
      destruct (N.eqb_spec a k), (N.eqb_spec b k); try subst k; try congruence;
      cbn [negb andb orb]; rewrite ?andb_true_r, ?orb_false_r, ?andb_false_r; reflexivity.
  Qed.

  Lemma put2_here l : label2 idx a b = l -> put2 idx a b l = idx.
  Proof.
    intro H. apply N.bits_inj. intro k. rewrite put2_bits. subst l. unfold label2.
    destruct (N.eqb_spec b k), (N.eqb_spec a k); try subst k; try congruence;
      destruct (N.testbit idx a), (N.testbit idx b); reflexivity.
  Qed.

  Lemma put2_flip l : label2 idx a b = l -> put2 idx a b (3 - l) = N.lxor idx m.
  Proof.
    intro H. apply N.bits_inj. intro k. unfold m. rewrite put2_bits, lxor_pair_bits.
    subst l. unfold label2.
    destruct (N.eqb_spec b k), (N.eqb_spec a k); try subst k; try congruence;
      destruct (N.testbit idx a), (N.testbit idx b); cbn; rewrite ?xorb_false_r; reflexivity.
  Qed.

  Ltac pair_cases :=
    let Ha := fresh "Ha" in let Hb := fresh "Hb" in
    destruct (N.testbit idx a) eqn:Ha, (N.testbit idx b) eqn:Hb;
    match goal with
    | Ha : N.testbit idx a = ?x, Hb : N.testbit idx b = ?y |- _ =>
        let l := eval cbv in ((if x then 1 else 0) + (if y then 2 else 0))%nat in
        assert (HL : label2 idx a b = l) by (unfold label2; rewrite Ha, Hb; reflexivity);
        rewrite HL;
        generalize (put2_here l HL); generalize (put2_flip l HL);
        cbn [Nat.sub]; intros Hflip Hhere; rewrite Hflip, Hhere
    end.

  Ltac unf2 :=
    unfold m4; cbn [nth]; unf.

  Lemma odd_m : odd_bits (N.land idx m) = xorb (N.testbit idx a) (N.testbit idx b).
  Proof. apply odd_bits_land_pair. exact Hab. Qed.

  Variable theta : R.

  Lemma k_rxx : K (ARXX m (half_phase_mul Rops theta)) psi idx = lift2 Rops (doc_rxx Rops theta) a b psi idx.
  Proof.
    unfold kernel, lift2, doc_rxx. pair_cases; unf2; destruct_psis psi; cbn [fst snd]; f_equal;
      unfold Rdiv; ring.
  Qed.

  Lemma k_ryy : K (ARYY m (half_phase Rops theta)) psi idx = lift2 Rops (doc_ryy Rops theta) a b psi idx.
  Proof.
    unfold kernel, lift2, doc_ryy. rewrite !odd_m.
    pair_cases; cbn [xorb]; unf2; destruct_psis psi; cbn [fst snd]; f_equal; ring.
  Qed.

  Lemma k_rzz : K (ARZZ m (half_phase Rops theta)) psi idx = lift2 Rops (doc_rzz Rops theta) a b psi idx.
  Proof.
    unfold kernel, lift2, doc_rzz. rewrite !odd_m.
    pair_cases; cbn [xorb]; unf2; destruct_psis psi; cbn [fst snd]; f_equal; ring.
  Qed.

  Lemma k_swap : K (ASwap m) psi idx = lift2 Rops (doc_swap Rops) a b psi idx.
  Proof.
    unfold kernel, lift2, doc_swap. rewrite !odd_m.
    pair_cases; cbn [xorb]; unf2; destruct_psis psi; cbn [fst snd]; f_equal; ring.
  Qed.

  Lemma k_iswap : K (AISwap m false) psi idx = lift2 Rops (doc_iswap Rops) a b psi idx.
  Proof.
    unfold kernel, lift2, doc_iswap. rewrite !odd_m.
    pair_cases; cbn [xorb]; unf2; destruct_psis psi; cbn [fst snd]; f_equal; ring.
  Qed.

  Lemma k_iswap_dg : K (AISwap m true) psi idx = lift2 Rops (doc_iswap_dg Rops) a b psi idx.
  Proof.
    unfold kernel, lift2, doc_iswap_dg. rewrite !odd_m.
    pair_cases; cbn [xorb]; unf2; destruct_psis psi; cbn [fst snd]; f_equal; ring.
  Qed.

  Lemma k_sqrt_swap : K (ASqrtSwap m false) psi idx = lift2 Rops (doc_sqrt_swap Rops) a b psi idx.
  Proof.
    unfold kernel, lift2, doc_sqrt_swap, hp, hm. rewrite !odd_m.
    pair_cases; cbn [xorb]; unf2; destruct_psis psi; cbn [fst snd]; f_equal; ring.
  Qed.

  Lemma k_sqrt_swap_dg : K (ASqrtSwap m true) psi idx = lift2 Rops (doc_sqrt_swap_dg Rops) a b psi idx.
  Proof.
    unfold kernel, lift2, doc_sqrt_swap_dg, hp, hm. rewrite !odd_m.
    pair_cases; cbn [xorb]; unf2; destruct_psis psi; cbn [fst snd]; f_equal; ring.
  Qed.

  Lemma k_sqrt_iswap : K (ASqrtISwap m false) psi idx = lift2 Rops (doc_sqrt_iswap Rops) a b psi idx.
  Proof.
    unfold kernel, lift2, doc_sqrt_iswap. rewrite !odd_m.
    pair_cases; cbn [xorb]; unf2; destruct_psis psi; cbn [fst snd]; f_equal; ring.
  Qed.

  Lemma k_sqrt_iswap_dg : K (ASqrtISwap m true) psi idx = lift2 Rops (doc_sqrt_iswap_dg Rops) a b psi idx.
  Proof.
    unfold kernel, lift2, doc_sqrt_iswap_dg. rewrite !odd_m.
    pair_cases; cbn [xorb]; unf2; destruct_psis psi; cbn [fst snd]; f_equal; ring.
  Qed.
End Pair.
