(** * C17T5: a re-used simulator.

    [Sym::init(int)] keeps an existing simulator when a comparison says that the session it was built
    from is unchanged (mode, operation queue, register sizes), and rebuilds it otherwise.  The model
    takes that comparison as a parameter [same] and asks one thing of it: it is *sound* -- it answers
    "unchanged" only when mode, queue and sizes really agree.  Then, however a simulator has been
    used before (built, run, reset, re-initialised for other sessions, any number of times, in any
    order), [reset] makes it exactly the simulator [Sym::new] builds for its current session, and
    the next [finish] is the run of a fresh simulator.  (A comparison that forgets a field -- a dagger
    flag, the mode, all but the outline of the queue -- is not sound, and the conclusion fails.) *)
From Coq Require Import Lia String ZArith List.
From QV Require Import Interp Sym Reg VecP C14T C17T3.
Import ListNotations.
Open Scope N_scope.

Section Reuse.
  Context {F : Type} (OP : ops F) (e1 e2 : F).
  Variable same : @sym F -> @int F -> bool.

  Definition sym_init (s : @sym F) (i : @int F) : @sym F := if same s i then s else sym_new OP i.

  Definition sound : Prop :=
    forall s i, same s i = true ->
      s_xor s = i_xor i /\ s_ops s = i_ops i /\
      q_num (s_q s) = lenN (i_qreg i) /\ c_num (s_c s) = lenN (i_creg i).

  (** the simulators one can get to, together with the session they currently belong to *)
  Inductive reachable : @sym F -> @int F -> Prop :=
  | R_new i : reachable (sym_new OP i) i
  | R_finish s i draws s' : reachable s i -> sym_finish OP e1 e2 s draws = Some s' -> reachable s' i
  | R_reset s i : reachable s i -> reachable (sym_reset OP s) i
  | R_init s i j : reachable s i -> reachable (sym_init s j) j.

  Definition inv (s : @sym F) (i : @int F) : Prop :=
    s_xor s = i_xor i /\ s_ops s = i_ops i /\
    same_frame (reg_new OP (lenN (i_qreg i))) (s_q s) /\
    same_cframe (creg_new (lenN (i_creg i))) (s_c s).

  Lemma reset_frame (r : qreg F) : same_frame r (reg_reset OP r 0).
  Proof. repeat split. cbn [reg_reset q_psi]. apply one_at_length. Qed.

  Lemma creset_frame (c : creg) : same_cframe c (creg_reset c 0).
  Proof. split; reflexivity. Qed.

  Lemma same_cframe_trans a b c : same_cframe a b -> same_cframe b c -> same_cframe a c.
  Proof. intros [A1 A2] [B1 B2]. split; congruence. Qed.

  Lemma reachable_inv (Hs : sound) s i : reachable s i -> inv s i.
  Proof.
    induction 1 as [i|s i draws s' _ IH Hf|s i _ IH|s i j _ IH].
    - repeat split.
    - destruct IH as [I1 [I2 [I3 I4]]]. unfold sym_finish in Hf.
      destruct (run_blocks OP e1 e2 (s_xor s) (s_q s) (s_c s) (blocks (s_ops s)) draws) as [[[r c] rest]|] eqn:E; [|discriminate].
      injection Hf as <-. destruct (run_blocks_frame OP e1 e2 _ _ _ _ _ _ _ _ E) as [A B].
      split; [exact I1|]. split; [exact I2|]. cbn [s_q s_c]. split.
      + eapply same_frame_trans; [exact I3|]. eapply same_frame_trans; [exact A|apply apply_frame].
      + eapply same_cframe_trans; [exact I4|exact B].
    - destruct IH as [I1 [I2 [I3 I4]]]. split; [exact I1|]. split; [exact I2|]. cbn [sym_reset s_q s_c]. split.
      + eapply same_frame_trans; [exact I3|apply reset_frame].
      + eapply same_cframe_trans; [exact I4|apply creset_frame].
    - unfold sym_init. destruct (same s j) eqn:E.
      + destruct (Hs s j E) as [S1 [S2 [S3 S4]]]. destruct IH as [I1 [I2 [I3 I4]]].
        split; [exact S1|]. split; [exact S2|].
        (* the frames were those of a fresh simulator for [i]; the sizes say it is also the frame for [j] *)
        assert (Eq : lenN (i_qreg i) = lenN (i_qreg j)).
        { destruct I3 as [_ [_ [N3 _]]]. cbn [reg_new reg_with_state q_num] in N3. congruence. }
        assert (Ec : lenN (i_creg i) = lenN (i_creg j)).
        { destruct I4 as [N4 _]. cbn [creg_new creg_with_state c_num] in N4. congruence. }
        rewrite <- Eq, <- Ec. split; assumption.
      + repeat split.
  Qed.

  Theorem reuse_reset (Hs : sound) s i : reachable s i -> sym_reset OP s = sym_new OP i.
  Proof.
    intro H. destruct (reachable_inv Hs s i H) as [I1 [I2 [I3 I4]]].
    unfold sym_reset, sym_new. rewrite I1, I2. f_equal.
    - rewrite (reset_of_frame OP _ _ I3). apply reset_new.
    - rewrite (creset_of_frame _ _ I4). apply creset_new.
  Qed.
End Reuse.

Definition C17_reuse_stmt : Prop :=
  forall (F : Type) (OP : ops F) (e1 e2 : F) (same : @sym F -> @int F -> bool),
    sound same ->
    forall (s : @sym F) (i : @int F), reachable OP e1 e2 same s i ->
      sym_reset OP s = sym_new OP i /\
      forall draws, sym_finish OP e1 e2 (sym_reset OP s) draws = sym_finish OP e1 e2 (sym_new OP i) draws.

Lemma C17_reuse_proof : C17_reuse_stmt.
Proof.
  intros F OP e1 e2 same Hs s i H.
  assert (E := reuse_reset OP e1 e2 same Hs s i H). split; [exact E|]. intro draws. rewrite E. reflexivity.
Qed.

(** the comparison matters: with one that always says "unchanged" a simulator built for one session
    is taken for another *)
Definition C17_reuse_unsound_stmt : Prop :=
  forall (F : Type) (OP : ops F) (e1 e2 : F),
    exists (i j : @int F),
      reachable OP e1 e2 (fun _ _ => true) (sym_init OP (fun _ _ => true) (sym_new OP i) j) j /\
      sym_reset OP (sym_init OP (fun _ _ => true) (sym_new OP i) j) <> sym_new OP j.

Lemma C17_reuse_unsound_proof : C17_reuse_unsound_stmt.
Proof.
  intros F OP e1 e2.
  exists int_empty, (int_xor int_empty). split.
  - apply (R_init OP e1 e2 (fun _ _ => true) (sym_new OP int_empty) int_empty (int_xor int_empty)). apply R_new.
  - unfold sym_init, sym_reset, sym_new. cbn [s_xor int_xor int_empty i_xor]. intro H.
    apply (f_equal s_xor) in H. cbn [s_xor] in H. discriminate.
Qed.
