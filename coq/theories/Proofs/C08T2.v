(** * C08T2: the threading model is not an input of any value.

    The register carries its threading model ([Single] / [Multi k]) as a field; no amplitude,
    probability, outcome, histogram or size the model computes depends on it -- whatever history
    of gate applications, measurements and resizes the register goes through.  (What the rayon
    runtime does with the field is outside the model; C08_sweep_deterministic and C08_reduce cover
    every schedule of the abstract sweep and every bracketing of a sum.) *)
From Coq Require Import Reals Lia List.
From QV Require Import Bits Op Reg ScalarR RegP C05T.
Import ListNotations.
Open Scope N_scope.

Definition with_th (r : qreg R) (k : N) : qreg R :=
  {| q_th := k; q_psi := q_psi r; q_num := q_num r; q_mask := q_mask r |}.

Lemma normalize_th r k : reg_normalize Rops E15 E9 (with_th r k) = with_th (reg_normalize Rops E15 E9 r) k.
Proof.
  unfold reg_normalize, reg_absolute, with_th. cbn [q_psi q_th q_num q_mask].
  destruct (fleb Rops _ E15); [reflexivity|]. destruct (fleb Rops _ E9); reflexivity.
Qed.

Lemma measure_th r k mask d :
  reg_measure Rops E15 E9 (with_th r k) mask d =
  (with_th (fst (reg_measure Rops E15 E9 r mask d)) k, snd (reg_measure Rops E15 E9 r mask d)).
Proof.
  unfold reg_measure. cbn [with_th q_mask q_num].
  destruct (N.eqb (N.land mask (q_mask r)) 0); cbn [fst snd]; [reflexivity|].
  f_equal. change (reg_collapse Rops (with_th r k) d (N.land mask (q_mask r)))
    with (with_th (reg_collapse Rops r d (N.land mask (q_mask r))) k). apply normalize_th.
Qed.

Lemma step_th r a k : step (with_th r k) a = with_th (step r a) k.
Proof.
  destruct a as [q|mask d|n]; cbn [step].
  - reflexivity.
  - rewrite measure_th. reflexivity.
  - unfold reg_set_num, with_th. cbn [q_num q_psi q_th q_mask].
    destruct (N.ltb n (q_num r)); reflexivity.
Qed.

Definition C08_threads_irrelevant_stmt : Prop :=
  forall (acts : list act) (r : qreg R) (k : N),
    (* the whole history commutes with a change of the threading model ... *)
    fold_left step acts (with_th r k) = with_th (fold_left step acts r) k /\
    (* ... and no observable reads it *)
    reg_probabilities Rops (with_th r k) = reg_probabilities Rops r /\
    reg_absolute Rops (with_th r k) = reg_absolute Rops r /\
    (forall count nv, reg_sample_all Rops (with_th r k) count nv = reg_sample_all Rops r count nv) /\
    (forall mask d, snd (reg_measure Rops E15 E9 (with_th r k) mask d) = snd (reg_measure Rops E15 E9 r mask d)).

Lemma C08_threads_irrelevant_proof : C08_threads_irrelevant_stmt.
Proof.
  intros acts r k. split; [|split; [|split; [|split]]].
  - revert r. induction acts as [|a acts IH]; intro r; cbn [fold_left]; [reflexivity|].
    rewrite step_th. apply IH.
  - reflexivity.
  - reflexivity.
  - intros count nv. reflexivity.
  - intros mask d. rewrite measure_th. reflexivity.
Qed.
