(** * C01M: a several-bit mask given to a one-qubit gate means that gate on each selected qubit.
    Composition of kernels over disjoint masks, then induction over the selected bits. *)
From Coq Require Import Reals Lra Lia Nsatz.
From QV Require Import Spec ScalarR BitsP OpP LocalP C01P C03P RotP.
Open Scope N_scope.

Section Disjoint.
  Variables m1 m2 : N.
  Hypothesis Hd : N.land m1 m2 = 0.
  Variable psi : vecR.
  Variable idx : N.

  Lemma lxor_lor_disj : N.lxor idx (N.lor m1 m2) = N.lxor (N.lxor idx m1) m2.
  Proof. rewrite <- (N.lxor_lor m1 m2 Hd). symmetry. apply N.lxor_assoc. Qed.

  Lemma land_disj_0 : N.land (N.land idx m1) (N.land idx m2) = 0.
  Proof.
    apply N.bits_inj. intro k. assert (X := f_equal (fun x => N.testbit x k) Hd). cbn beta in X.
    rewrite N.land_spec, N.bits_0 in X. rewrite !N.land_spec, N.bits_0.
    destruct (N.testbit idx k), (N.testbit m1 k), (N.testbit m2 k); try reflexivity; discriminate.
  Qed.

  Lemma popcount_land_lor : popcount (N.land idx (N.lor m1 m2)) = popcount (N.land idx m1) + popcount (N.land idx m2).
  Proof. rewrite N.land_lor_distr_r. apply popcount_lor_disjoint. apply land_disj_0. Qed.

  Lemma land_lxor_other : N.land (N.lxor idx m1) m2 = N.land idx m2.
  Proof.
    apply N.bits_inj. intro k. assert (X := f_equal (fun x => N.testbit x k) Hd). cbn beta in X.
    rewrite N.land_spec, N.bits_0 in X. rewrite !N.land_spec, N.lxor_spec.
    destruct (N.testbit idx k), (N.testbit m1 k), (N.testbit m2 k); try reflexivity; discriminate.
  Qed.

  Lemma comp_x : K (AX (N.lor m1 m2)) psi idx = K (AX m1) (K (AX m2) psi) idx.
  Proof. cbn [kernel]. rewrite lxor_lor_disj. reflexivity. Qed.

  Lemma odd_add a b : N.odd (a + b) = xorb (N.odd a) (N.odd b).
  Proof. apply N.odd_add. Qed.

  Lemma comp_z : K (AZ (N.lor m1 m2)) psi idx = K (AZ m1) (K (AZ m2) psi) idx.
  Proof.
    cbn [kernel]. unfold odd_bits. rewrite popcount_land_lor, odd_add.
    destruct (N.odd (popcount (N.land idx m1))), (N.odd (popcount (N.land idx m2))); cbn [xorb]; try reflexivity.
    unfold cneg, re, im. cbn [fst snd fneg Rops]. destruct (psi idx). cbn [fst snd]. f_equal; ring.
  Qed.

  Lemma comp_s : K (AS (N.lor m1 m2) false) psi idx = K (AS m1 false) (K (AS m2 false) psi) idx.
  Proof.
    cbn [kernel]. unfold st_count. rewrite popcount_land_lor, rotate_add. f_equal. apply N.add_comm.
  Qed.
End Disjoint.

(** T: the kernel multiplies by e^{i pi/4 * count} *)
Definition tau (z : C R) (c : N) : C R :=
  let z' := rotate Rops z (N.shiftr c 1) in
  if N.testbit c 0 then cmul Rops (exp_i_pi_4 Rops) z' else z'.

Lemma rotate_cmul (w z : C R) q : rotate Rops (cmul Rops w z) q = cmul Rops w (rotate Rops z q).
Proof.
  rewrite !rotate_mod4. destruct (q mod 4) as [|[[|[]|]|[|[]|]|]]; destruct w as [a b], z as [x y];
    unfold iz, negz, cmul, re, im; cbn [fst snd fmul fsub fadd Rops]; f_equal; ring.
Qed.

Lemma ee_is_i z : cmul Rops (exp_i_pi_4 Rops) (cmul Rops (exp_i_pi_4 Rops) z) = rotate Rops z 1.
Proof.
  rewrite rotate_mod4. cbn [N.modulo N.div_eucl]. change (1 mod 4) with 1.
  destruct z as [x y]. unfold exp_i_pi_4, cmul, iz, re, im. cbn [fst snd fmul fsub fadd fisq2 Rops].
  generalize isq2_sq2. set (h := (/ sqrt 2)%R). intro Hq. f_equal; nsatz.
Qed.

Lemma shiftr1_double a b : (b < 2) -> N.shiftr (2 * a + b) 1 = a.
Proof.
  intro H. rewrite N.shiftr_div_pow2. change (2 ^ 1) with 2.
  replace (2 * a + b) with (b + a * 2) by lia. rewrite N.div_add by discriminate.
  rewrite N.div_small by exact H. lia.
Qed.

Lemma tau_spec z a b : b < 2 ->
  tau z (2 * a + b) = rotate Rops (if N.eqb b 1 then cmul Rops (exp_i_pi_4 Rops) z else z) a.
Proof.
  intro H. unfold tau. rewrite shiftr1_double by exact H.
  assert (E : N.testbit (2 * a + b) 0 = N.eqb b 1).
  { rewrite N.bit0_odd. replace (2 * a + b) with (b + 2 * a) by lia. rewrite N.odd_add_mul_2.
    destruct b as [|[]]; try reflexivity; lia. }
  rewrite E. destruct (N.eqb b 1); [rewrite rotate_cmul|]; reflexivity.
Qed.

Lemma tau_add z c1 c2 : tau (tau z c2) c1 = tau z (c1 + c2).
Proof.
  assert (H1 := N.div_mod c1 2 ltac:(discriminate)). assert (H2 := N.div_mod c2 2 ltac:(discriminate)).
  assert (B1 : c1 mod 2 < 2) by (apply N.mod_lt; discriminate).
  assert (B2 : c2 mod 2 < 2) by (apply N.mod_lt; discriminate).
  set (a1 := c1 / 2) in *. set (b1 := c1 mod 2) in *. set (a2 := c2 / 2) in *. set (b2 := c2 mod 2) in *.
  rewrite H1, H2. rewrite (tau_spec z a2 b2 B2), (tau_spec _ a1 b1 B1).
  destruct b1 as [|[]]; try lia; destruct b2 as [|[]]; try lia; cbn [N.eqb Pos.eqb].
  - replace (2 * a1 + 0 + (2 * a2 + 0)) with (2 * (a1 + a2) + 0) by lia.
    rewrite tau_spec by lia. cbn [N.eqb]. rewrite rotate_add. f_equal. lia.
  - replace (2 * a1 + 0 + (2 * a2 + 1)) with (2 * (a1 + a2) + 1) by lia.
    rewrite tau_spec by lia. cbn [N.eqb Pos.eqb]. rewrite rotate_add. f_equal. lia.
  - replace (2 * a1 + 1 + (2 * a2 + 0)) with (2 * (a1 + a2) + 1) by lia.
    rewrite tau_spec by lia. cbn [N.eqb Pos.eqb]. rewrite <- rotate_cmul, rotate_add. f_equal. lia.
  - replace (2 * a1 + 1 + (2 * a2 + 1)) with (2 * (a1 + a2 + 1) + 0) by lia.
    rewrite tau_spec by lia. cbn [N.eqb]. rewrite <- rotate_cmul, ee_is_i, !rotate_add. f_equal. lia.
Qed.

Lemma k_t_tau m psi idx : K (AT m false) psi idx = tau (psi idx) (popcount (N.land idx m)).
Proof. reflexivity. Qed.

Lemma comp_t m1 m2 : N.land m1 m2 = 0 -> forall psi idx,
  K (AT (N.lor m1 m2) false) psi idx = K (AT m1 false) (K (AT m2 false) psi) idx.
Proof.
  intros Hd psi idx. rewrite !k_t_tau, tau_add, (popcount_land_lor m1 m2 Hd). reflexivity.
Qed.

(** ** induction over the selected bit positions *)
Definition mask_of (bs : list N) : N := fold_right (fun b m => N.lor (2 ^ b) m) 0 bs.
Definition lift_all (U : mat2 (F:=R)) (bs : list N) (psi : vecR) : vecR :=
  fold_right (fun b v => lift1 Rops U b v) psi bs.

Lemma mask_of_bit bs k : N.testbit (mask_of bs) k = existsb (N.eqb k) bs.
Proof.
  induction bs as [|b bs IH]; cbn [mask_of fold_right existsb]; [apply N.bits_0|].
  change (fold_right _ 0 bs) with (mask_of bs). rewrite N.lor_spec, pow2_bits, IH, (N.eqb_sym b k). reflexivity.
Qed.

Lemma mask_disjoint b bs : ~ In b bs -> N.land (2 ^ b) (mask_of bs) = 0.
Proof.
  intro H. apply N.bits_inj. intro k. rewrite N.land_spec, pow2_bits, mask_of_bit, N.bits_0.
  destruct (N.eqb_spec b k) as [<-|]; [|reflexivity].
  destruct (existsb (N.eqb b) bs) eqn:E; [|reflexivity].
  apply existsb_exists in E. destruct E as [x [Hx E]]. apply N.eqb_eq in E. subst x. contradiction.
Qed.

Lemma lift1_ext U b (v w : vecR) idx : (forall i, v i = w i) -> lift1 Rops U b v idx = lift1 Rops U b w idx.
Proof. intro H. unfold lift1. rewrite !H. reflexivity. Qed.

Section MultiBit.
  Variable G : N -> atomic R.
  Variable U : mat2 (F:=R).
  Hypothesis one_bit : forall b psi idx, K (G (2 ^ b)) psi idx = lift1 Rops U b psi idx.
  Hypothesis compose : forall m1 m2, N.land m1 m2 = 0 -> forall psi idx,
      K (G (N.lor m1 m2)) psi idx = K (G m1) (K (G m2) psi) idx.
  Hypothesis empty : forall psi idx, K (G 0) psi idx = psi idx.

  Lemma multi_bit bs : NoDup bs -> forall psi idx, K (G (mask_of bs)) psi idx = lift_all U bs psi idx.
  Proof.
    induction 1 as [|b bs Hb Hnd IH]; intros psi idx; cbn [mask_of lift_all fold_right]; [apply empty|].
    change (fold_right _ 0 bs) with (mask_of bs). change (fold_right _ psi bs) with (lift_all U bs psi).
    rewrite (compose _ _ (mask_disjoint b bs Hb)), one_bit. apply lift1_ext. apply IH.
  Qed.
End MultiBit.

Lemma empty_x psi idx : K (AX 0) psi idx = psi idx.
Proof. cbn [kernel]. rewrite N.lxor_0_r. reflexivity. Qed.
Lemma empty_z psi idx : K (AZ 0) psi idx = psi idx.
Proof. cbn [kernel]. rewrite N.land_0_r. reflexivity. Qed.
Lemma empty_s psi idx : K (AS 0 false) psi idx = psi idx.
Proof. cbn [kernel]. unfold st_count. rewrite N.land_0_r. reflexivity. Qed.
Lemma empty_t psi idx : K (AT 0 false) psi idx = psi idx.
Proof. cbn [kernel]. unfold st_count. rewrite N.land_0_r. reflexivity. Qed.

Definition C01_multi_bit_stmt : Prop :=
  forall (bs : list N), NoDup bs ->
    forall (psi : vecR) (idx : N),
      multi_fn Rops (op_x (mask_of bs)) psi idx = lift_all (doc_x Rops) bs psi idx /\
      multi_fn Rops (op_z (mask_of bs)) psi idx = lift_all (doc_z Rops) bs psi idx /\
      multi_fn Rops (op_s (mask_of bs)) psi idx = lift_all (doc_s Rops) bs psi idx /\
      multi_fn Rops (op_t (mask_of bs)) psi idx = lift_all (doc_t Rops) bs psi idx.

Lemma C01_multi_bit_proof : C01_multi_bit_stmt.
Proof.
  intros bs Hnd psi idx. repeat split.
  - unfold op_x. rewrite multi_fn_one. apply (multi_bit AX (doc_x Rops) k_x comp_x empty_x bs Hnd).
  - unfold op_z. rewrite multi_fn_one. apply (multi_bit AZ (doc_z Rops) k_z comp_z empty_z bs Hnd).
  - unfold op_s. rewrite multi_fn_one.
    apply (multi_bit (fun m => AS m false) (doc_s Rops) k_s comp_s empty_s bs Hnd).
  - unfold op_t. rewrite multi_fn_one.
    apply (multi_bit (fun m => AT m false) (doc_t Rops) k_t comp_t empty_t bs Hnd).
Qed.
