(** * C01M: a several-bit mask given to a one-qubit gate means that gate on each selected qubit.
    Composition of kernels over disjoint masks, then induction over the selected bits. *)
From Coq Require Import Reals Lra Lia Nsatz.
From QV Require Import Spec ScalarR BitsP OpP LocalP C01P C03P RotP.
Open Scope N_scope.

Section Disjoint.
  Variables m1 m2 : N.
  Hypothesis Hd : N.land m1 m2 = 0.
  Variable psi : vecR.
  Variable idx : N.

  Lemma lxor_lor_disj : N.lxor idx (N.lor m1 m2) = N.lxor (N.lxor idx m1) m2.
  Proof. rewrite <- (N.lxor_lor m1 m2 Hd). symmetry. apply N.lxor_assoc. Qed.

  Lemma land_disj_0 : N.land (N.land idx m1) (N.land idx m2) = 0.
  Proof.
    apply N.bits_inj. intro k. assert (X := f_equal (fun x => N.testbit x k) Hd). cbn beta in X.
    rewrite N.land_spec, N.bits_0 in X. rewrite !N.land_spec, N.bits_0.
    destruct (N.testbit idx k), (N.testbit m1 k), (N.testbit m2 k); try reflexivity; discriminate.
  Qed.

  Lemma popcount_land_lor : popcount (N.land idx (N.lor m1 m2)) = popcount (N.land idx m1) + popcount (N.land idx m2).
  Proof. rewrite N.land_lor_distr_r. apply popcount_lor_disjoint. apply land_disj_0. Qed.

  Lemma land_lxor_other : N.land (N.lxor idx m1) m2 = N.land idx m2.
  Proof.
    apply N.bits_inj. intro k. assert (X := f_equal (fun x => N.testbit x k) Hd). cbn beta in X.
    rewrite N.land_spec, N.bits_0 in X. rewrite !N.land_spec, N.lxor_spec.
    destruct (N.testbit idx k), (N.testbit m1 k), (N.testbit m2 k); try reflexivity; discriminate.
  Qed.

  Lemma comp_x : K (AX (N.lor m1 m2)) psi idx = K (AX m1) (K (AX m2) psi) idx.
  Proof. cbn [kernel]. rewrite lxor_lor_disj. reflexivity. Qed.

  Lemma odd_add a b : N.odd (a + b) = xorb (N.odd a) (N.odd b).
  Proof. apply N.odd_add. Qed.

  Lemma comp_z : K (AZ (N.lor m1 m2)) psi idx = K (AZ m1) (K (AZ m2) psi) idx.
  Proof.
    cbn [kernel]. unfold odd_bits. rewrite popcount_land_lor, odd_add.
    destruct (N.odd (popcount (N.land idx m1))), (N.odd (popcount (N.land idx m2))); cbn [xorb]; try reflexivity.
    unfold cneg, re, im. cbn [fst snd fneg Rops]. destruct (psi idx). cbn [fst snd]. f_equal; ring.
  Qed.

  Lemma comp_s : K (AS (N.lor m1 m2) false) psi idx = K (AS m1 false) (K (AS m2 false) psi) idx.
  Proof.
    cbn [kernel]. unfold st_count. rewrite popcount_land_lor, rotate_add. f_equal. apply N.add_comm.
  Qed.
End Disjoint.

(** T: the kernel multiplies by e^{i pi/4 * count} *)
Definition tau (z : C R) (c : N) : C R :=
  let z' := rotate Rops z (N.shiftr c 1) in
  if N.testbit c 0 then cmul Rops (exp_i_pi_4 Rops) z' else z'.

Lemma rotate_cmul (w z : C R) q : rotate Rops (cmul Rops w z) q = cmul Rops w (rotate Rops z q).
Proof.
  rewrite !rotate_mod4. destruct (q mod 4) as [|[[|[]|]|[|[]|]|]]; destruct w as [a b], z as [x y];
    unfold iz, negz, cmul, re, im; cbn [fst snd fmul fsub fadd Rops]; f_equal; ring.
Qed.

Lemma ee_is_i z : cmul Rops (exp_i_pi_4 Rops) (cmul Rops (exp_i_pi_4 Rops) z) = rotate Rops z 1.
Proof.
  rewrite rotate_mod4. cbn [N.modulo N.div_eucl]. change (1 mod 4) with 1.
  destruct z as [x y]. unfold exp_i_pi_4, cmul, iz, re, im. cbn [fst snd fmul fsub fadd fisq2 Rops].
  generalize isq2_sq2. set (h := (/ sqrt 2)%R). intro Hq. f_equal; nsatz.
Qed.

Lemma shiftr1_double a b : (b < 2) -> N.shiftr (2 * a + b) 1 = a.
Proof.
  intro H. rewrite N.shiftr_div_pow2. change (2 ^ 1) with 2.
  replace (2 * a + b) with (b + a * 2) by lia. rewrite N.div_add by discriminate.
  rewrite N.div_small by exact H. lia.
Qed.

Lemma tau_spec z a b : b < 2 ->
  tau z (2 * a + b) = rotate Rops (if N.eqb b 1 then cmul Rops (exp_i_pi_4 Rops) z else z) a.
Proof.
  intro H. unfold tau. rewrite shiftr1_double by exact H.
  assert (E : N.testbit (2 * a + b) 0 = N.eqb b 1).
  { rewrite N.bit0_odd. replace (2 * a + b) with (b + 2 * a) by lia. rewrite N.odd_add_mul_2.
    destruct b as [|[]]; try reflexivity; lia. }
  rewrite E. destruct (N.eqb b 1); [rewrite rotate_cmul|]; reflexivity.
Qed.

Lemma tau_add z c1 c2 : tau (tau z c2) c1 = tau z (c1 + c2).
Proof.
  assert (H1 := N.div_mod c1 2 ltac:(discriminate)). assert (H2 := N.div_mod c2 2 ltac:(discriminate)).
  assert (B1 : c1 mod 2 < 2) by (apply N.mod_lt; discriminate).
  assert (B2 : c2 mod 2 < 2) by (apply N.mod_lt; discriminate).
  set (a1 := c1 / 2) in *. set (b1 := c1 mod 2) in *. set (a2 := c2 / 2) in *. set (b2 := c2 mod 2) in *.
  rewrite H1, H2. rewrite (tau_spec z a2 b2 B2), (tau_spec _ a1 b1 B1).
  destruct b1 as [|[]]; try lia; destruct b2 as [|[]]; try lia; cbn [N.eqb Pos.eqb].
  - replace (2 * a1 + 0 + (2 * a2 + 0)) with (2 * (a1 + a2) + 0) by lia.
    rewrite tau_spec by lia. cbn [N.eqb]. rewrite rotate_add. f_equal. lia.
  - replace (2 * a1 + 0 + (2 * a2 + 1)) with (2 * (a1 + a2) + 1) by lia.
    rewrite tau_spec by lia. cbn [N.eqb Pos.eqb]. rewrite rotate_add. f_equal. lia.
  - replace (2 * a1 + 1 + (2 * a2 + 0)) with (2 * (a1 + a2) + 1) by lia.
    rewrite tau_spec by lia. cbn [N.eqb Pos.eqb]. rewrite <- rotate_cmul, rotate_add. f_equal. lia.
  - replace (2 * a1 + 1 + (2 * a2 + 1)) with (2 * (a1 + a2 + 1) + 0) by lia.
    rewrite tau_spec by lia. cbn [N.eqb]. rewrite <- rotate_cmul, ee_is_i, !rotate_add. f_equal. lia.
Qed.

Lemma k_t_tau m psi idx : K (AT m false) psi idx = tau (psi idx) (popcount (N.land idx m)).
Proof. reflexivity. Qed.

Lemma comp_t m1 m2 : N.land m1 m2 = 0 -> forall psi idx,
  K (AT (N.lor m1 m2) false) psi idx = K (AT m1 false) (K (AT m2 false) psi) idx.
Proof.
  intros Hd psi idx. rewrite !k_t_tau, tau_add, (popcount_land_lor m1 m2 Hd). reflexivity.
Qed.

(** ** induction over the selected bit positions *)
Definition mask_of (bs : list N) : N := fold_right (fun b m => N.lor (2 ^ b) m) 0 bs.
Definition lift_all (U : mat2 (F:=R)) (bs : list N) (psi : vecR) : vecR :=
  fold_right (fun b v => lift1 Rops U b v) psi bs.

Lemma mask_of_bit bs k : N.testbit (mask_of bs) k = existsb (N.eqb k) bs.
Proof.
  induction bs as [|b bs IH]; cbn [mask_of fold_right existsb]; [apply N.bits_0|].
  change (fold_right _ 0 bs) with (mask_of bs). rewrite N.lor_spec, pow2_bits, IH, (N.eqb_sym b k). reflexivity.
Qed.

Lemma mask_disjoint b bs : ~ In b bs -> N.land (2 ^ b) (mask_of bs) = 0.
Proof.
  intro H. apply N.bits_inj. intro k. rewrite N.land_spec, pow2_bits, mask_of_bit, N.bits_0.
  destruct (N.eqb_spec b k) as [<-|]; [|reflexivity].
  destruct (existsb (N.eqb b) bs) eqn:E; [|reflexivity].
  apply existsb_exists in E. destruct E as [x [Hx E]]. apply N.eqb_eq in E. subst x. contradiction.
Qed.

Lemma lift1_ext U b (v w : vecR) idx : (forall i, v i = w i) -> lift1 Rops U b v idx = lift1 Rops U b w idx.
Proof. intro H. unfold lift1. rewrite !H. reflexivity. Qed.

Section MultiBit.
  Variable G : N -> atomic R.
  Variable U : mat2 (F:=R).
  Hypothesis one_bit : forall b psi idx, K (G (2 ^ b)) psi idx = lift1 Rops U b psi idx.
  Hypothesis compose : forall m1 m2, N.land m1 m2 = 0 -> forall psi idx,
      K (G (N.lor m1 m2)) psi idx = K (G m1) (K (G m2) psi) idx.
  Hypothesis empty : forall psi idx, K (G 0) psi idx = psi idx.

  Lemma multi_bit bs : NoDup bs -> forall psi idx, K (G (mask_of bs)) psi idx = lift_all U bs psi idx.
  Proof.
    induction 1 as [|b bs Hb Hnd IH]; intros psi idx; cbn [mask_of lift_all fold_right]; [apply empty|].
    change (fold_right _ 0 bs) with (mask_of bs). change (fold_right _ psi bs) with (lift_all U bs psi).
    rewrite (compose _ _ (mask_disjoint b bs Hb)), one_bit. apply lift1_ext. apply IH.
  Qed.
End MultiBit.

Lemma empty_x psi idx : K (AX 0) psi idx = psi idx.
Proof. cbn [kernel]. rewrite N.lxor_0_r. reflexivity. Qed.
Lemma empty_z psi idx : K (AZ 0) psi idx = psi idx.
Proof. cbn [kernel]. rewrite N.land_0_r. reflexivity. Qed.
Lemma empty_s psi idx : K (AS 0 false) psi idx = psi idx.
Proof. cbn [kernel]. unfold st_count. rewrite N.land_0_r. reflexivity. Qed.
Lemma empty_t psi idx : K (AT 0 false) psi idx = psi idx.
Proof. cbn [kernel]. unfold st_count. rewrite N.land_0_r. reflexivity. Qed.


(** ** Y: the fused power of i of a several-bit mask is the product of the one-bit factors *)
Lemma rotate_congr z a b : a mod 4 = b mod 4 -> rotate Rops z a = rotate Rops z b.
Proof. intro H. rewrite !rotate_mod4, H. reflexivity. Qed.

Definition b2n (b : bool) : N := if b then 1 else 0.

Lemma mod4_of_bits q : q mod 4 = b2n (N.testbit q 0) + 2 * b2n (N.testbit q 1).
Proof.
  assert (H := low_bits q). assert (B : q mod 4 < 4) by (apply N.mod_lt; discriminate).
  destruct (q mod 4) as [|[[|[]|]|[|[]|]|]]; try lia; injection H as H0 H1; rewrite H0, H1; reflexivity.
Qed.

Definition ipv (k : N) (o : bool) : N :=
  let y := N.lxor (N.succ k) (N.ones 32) in if o then y else N.lxor y 2.

Definition ipf (r : N) (o : bool) : N := (3 - r + (if o then 0 else 2)) mod 4.

Lemma ones32_bit i : i < 32 -> N.testbit (N.ones 32) i = true.
Proof. intro H. apply N.ones_spec_low. exact H. Qed.

Lemma ipv_mod4 k o : ipv k o mod 4 = ipf (N.succ k mod 4) o.
Proof.
  unfold ipv. cbv zeta. set (s := N.succ k).
  assert (H := low_bits s). assert (B : s mod 4 < 4) by (apply N.mod_lt; discriminate).
  destruct o; rewrite mod4_of_bits, ?N.lxor_spec, !(ones32_bit 0), !(ones32_bit 1) by lia;
    change (N.testbit 2 0) with false; change (N.testbit 2 1) with true;
    destruct (s mod 4) as [|[[|[]|]|[|[]|]|]]; try lia; injection H as H0 H1; rewrite H0, H1; reflexivity.
Qed.

Lemma ipf_add r1 r2 o1 o2 : r1 < 4 -> r2 < 4 ->
  (ipf r2 o2 + ipf r1 o1) mod 4 = ipf ((r1 + r2 + 3) mod 4) (xorb o1 o2).
Proof.
  intros H1 H2.
  destruct r1 as [|[[|[]|]|[|[]|]|]]; try lia; destruct r2 as [|[[|[]|]|[|[]|]|]]; try lia;
    destruct o1, o2; reflexivity.
Qed.

Lemma ipv_add k1 k2 o1 o2 : (ipv k2 o2 + ipv k1 o1) mod 4 = ipv (k1 + k2) (xorb o1 o2) mod 4.
Proof.
  rewrite N.add_mod by discriminate. rewrite !ipv_mod4.
  rewrite ipf_add by (apply N.mod_lt; discriminate). f_equal.
  rewrite <- N.add_mod_idemp_l by discriminate. rewrite <- N.add_mod by discriminate.
  rewrite N.add_mod_idemp_l by discriminate.
  replace (N.succ k1 + N.succ k2 + 3) with (N.succ (k1 + k2) + 1 * 4) by lia.
  apply N.mod_add. discriminate.
Qed.

Lemma k_y_ipv m psi idx :
  K (AY m) psi idx = rotate Rops (psi (N.lxor idx m)) (ipv (popcount m) (N.odd (popcount (N.land idx m)))).
Proof. reflexivity. Qed.

Lemma comp_y m1 m2 : N.land m1 m2 = 0 -> forall psi idx,
  K (AY (N.lor m1 m2)) psi idx = K (AY m1) (K (AY m2) psi) idx.
Proof.
  intros Hd psi idx. rewrite (k_y_ipv m1), (k_y_ipv m2), (k_y_ipv (N.lor m1 m2)).
  rewrite (land_lxor_other m1 m2 Hd), rotate_add, <- (lxor_lor_disj m1 m2 Hd).
  apply rotate_congr. rewrite (popcount_land_lor m1 m2 Hd), N.odd_add.
  rewrite (popcount_lor_disjoint m1 m2 Hd). symmetry. apply ipv_add.
Qed.

Lemma empty_y psi idx : K (AY 0) psi idx = psi idx.
Proof. rewrite k_y_ipv, N.lxor_0_r, N.land_0_r. reflexivity. Qed.


(** ** H: the pairing decomposition of [op_h] is the product of one-qubit Hadamards *)
From QV Require Import BitsIterP.

Lemma h2_comp x y : x <> y -> forall psi idx,
  K (AH2 (2 ^ x) (2 ^ y)) psi idx = K (AH1 (2 ^ x)) (K (AH1 (2 ^ y)) psi) idx.
Proof.
  intros Hxy psi idx. cbn [kernel].
  rewrite (lxor_lor_disj (2 ^ x) (2 ^ y) (land_pow2_pow2 x y Hxy)).
  rewrite !land_pow2_eq0, N.lxor_spec, pow2_bits.
  replace (N.eqb x y) with false by (symmetry; apply N.eqb_neq; exact Hxy). rewrite xorb_false_r.
  destruct (N.testbit idx x), (N.testbit idx y); cbn [negb]; cbv iota; unf;
    destruct (psi idx) as [a0 b0], (psi (N.lxor idx (2 ^ x))) as [a1 b1],
             (psi (N.lxor idx (2 ^ y))) as [a2 b2], (psi (N.lxor (N.lxor idx (2 ^ x)) (2 ^ y))) as [a3 b3];
    cbn [fst snd]; generalize isq2_sq2; set (h := (/ sqrt 2)%R); intro Hq;
    assert (Hh : (2 * / 2 = 1)%R) by lra; revert Hh; set (hf := (/ 2)%R); intro Hh; f_equal; nsatz.
Qed.

Definition pows (ps : list N) : list N := map (fun j => 2 ^ j) ps.

Lemma lift_all_app U l1 l2 psi : lift_all U (l1 ++ l2) psi = lift_all U l1 (lift_all U l2 psi).
Proof. unfold lift_all. apply fold_right_app. Qed.

Lemma lift_all_ext U bs : forall (v w : vecR), (forall i, v i = w i) -> forall idx, lift_all U bs v idx = lift_all U bs w idx.
Proof.
  induction bs as [|b bs IH]; intros v w H idx; cbn [lift_all fold_right]; [apply H|].
  apply lift1_ext. intro i. apply (IH v w H).
Qed.

Lemma multi_fn_cons s (rest : multi R) (psi : vecR) : multi_fn Rops (s :: rest) psi = multi_fn Rops rest (single_fn Rops s psi).
Proof. reflexivity. Qed.

Lemma multi_fn_ext (q : multi R) : forall (v w : vecR), (forall i, v i = w i) -> forall idx, multi_fn Rops q v idx = multi_fn Rops q w idx.
Proof.
  induction q as [|s q IH]; intros v w H idx; [apply H|].
  rewrite !multi_fn_cons. apply IH. intro i.
  assert (KE : K (s_func s) v i = K (s_func s) w i).
  { apply (kernel_local Rops (s_func s) v w i). intros j _. apply H. }
  unfold single_fn. destruct (N.eqb (s_ctrl s) 0); [exact KE|].
  destruct (ctrl_ok _ _); [exact KE|apply H].
Qed.

(** the pairing walk applies H on the listed bits, first listed first *)
Lemma h_pairs_spec : forall ps, NoDup ps -> forall (psi : vecR) idx,
  multi_fn Rops (h_pairs (pows ps)) psi idx = lift_all (doc_h Rops) (rev ps) psi idx.
Proof.
  assert (P2 : forall (P : list N -> Prop), P [] -> (forall a, P [a]) ->
               (forall a b l, P l -> P (a :: b :: l)) -> forall l, P l).
  { intros P H0 H1 H2. fix IH 1. intros [|a [|b l]]; [exact H0|apply H1|apply H2, IH]. }
  intro ps. pattern ps. apply P2; clear ps.
  - intros _ psi idx. reflexivity.
  - intros a _ psi idx. cbn [pows map h_pairs rev app lift_all fold_right].
    rewrite multi_fn_cons. cbn [multi_fn fold_left]. rewrite single_fn_uncontrolled. apply k_h.
  - intros a b l IH Hnd psi idx.
    inversion Hnd as [|a' l' Ha Hnd']; subst. inversion Hnd' as [|b' l'' Hb Hnd'']; subst.
    assert (Hab : b <> a) by (intro E; apply Ha; left; exact E).
    cbn [pows map h_pairs]. rewrite multi_fn_cons. change (map (fun j => 2 ^ j) l) with (pows l).
    cbn [rev]. rewrite <- app_assoc, lift_all_app. cbn [app lift_all fold_right].
    change (fold_right (fun b0 v => lift1 Rops (doc_h Rops) b0 v) ?x (rev l)) with (lift_all (doc_h Rops) (rev l) x).
    rewrite (IH Hnd''). apply lift_all_ext. intro i.
    rewrite single_fn_uncontrolled, (h2_comp b a Hab), k_h. apply lift1_ext. intro j. apply k_h.
Qed.

(** positions of the set bits met by the scan *)
Fixpoint positions (d : nat) (k mask : N) : list N :=
  match d with
  | O => []
  | S d' => if N.testbit mask k then k :: positions d' (N.succ k) mask else positions d' (N.succ k) mask
  end.

Lemma scan_positions d : forall k mask, scan_bits d (2 ^ k) mask = pows (positions d k mask).
Proof.
  induction d as [|d IH]; intros k mask; [reflexivity|].
  rewrite scan_step. cbn [positions]. destruct (N.testbit mask k); cbn [pows map]; rewrite IH; reflexivity.
Qed.

Lemma positions_in d : forall k mask j,
  In j (positions d k mask) <-> k <= j /\ (N.to_nat j < N.to_nat k + d)%nat /\ N.testbit mask j = true.
Proof.
  induction d as [|d IH]; intros k mask j; cbn [positions].
  - cbn [In]. split; [tauto|]. lia.
  - destruct (N.testbit mask k) eqn:Hb; cbn [In]; rewrite IH; split.
    + intros [<-|[H1 [H2 H3]]]; repeat split; try lia; assumption.
    + intros [H1 [H2 H3]]. destruct (N.eq_dec k j) as [E|E]; [left; exact E|right; repeat split; try lia; assumption].
    + intros [H1 [H2 H3]]; repeat split; try lia; assumption.
    + intros [H1 [H2 H3]]. destruct (N.eq_dec k j) as [E|E]; [subst; congruence|repeat split; try lia; assumption].
Qed.

Lemma positions_nodup d : forall k mask, NoDup (positions d k mask).
Proof.
  induction d as [|d IH]; intros k mask; cbn [positions]; [constructor|].
  destruct (N.testbit mask k); [|apply IH]. constructor; [|apply IH].
  rewrite positions_in. lia.
Qed.

Lemma scan64_positions mask : exists ps, scan64 mask = pows ps /\ NoDup ps /\
  forall j, In j ps <-> j < 64 /\ N.testbit mask j = true.
Proof.
  exists (positions 64 0 mask). split; [|split].
  - unfold scan64. assert (H := scan_positions 64 0 mask). change (2 ^ 0) with 1 in H. exact H.
  - apply positions_nodup.
  - intro j. rewrite positions_in. split; intros Hh; intuition lia.
Qed.

Lemma popcount_pos_ge1 p : 1 <= popcount_pos p.
Proof. induction p as [p IH|p IH|]; cbn [popcount_pos]; lia. Qed.

Lemma popcount_eq0 m : popcount m = 0 -> m = 0.
Proof. destruct m as [|p]; [reflexivity|]. cbn [popcount]. assert (H := popcount_pos_ge1 p). lia. Qed.

Lemma popcount_eq1 m : popcount m = 1 -> exists b, m = 2 ^ b.
Proof.
  destruct m as [|p]; [discriminate|]. cbn [popcount]. induction p as [p IH|p IH|]; cbn [popcount_pos].
  - assert (H := popcount_pos_ge1 p). lia.
  - intro H. destruct (IH H) as [b Hb]. exists (N.succ b). rewrite N.pow_succ_r', <- Hb. reflexivity.
  - intros _. exists 0. reflexivity.
Qed.

Lemma testbit_high m j : m < 2 ^ 64 -> N.testbit m j = true -> j < 64.
Proof.
  intros Hm Hj. destruct (N.lt_ge_cases j 64) as [L|G]; [exact L|].
  rewrite (testbit_lt_pow2 m j 64 Hm G) in Hj. discriminate.
Qed.
