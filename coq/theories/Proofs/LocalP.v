(** * LocalP: every kernel reads its input only at indices that differ from the output index
    inside the gate's support.  Generic in the scalar instance (no arithmetic involved). *)
From Coq Require Import Lia.
From QV Require Import Spec BitsP.
Open Scope N_scope.

(** [i] differs from [idx] only inside [S] *)
Definition within (S i idx : N) : Prop := N.ldiff (N.lxor i idx) S = 0.

Lemma within_refl S idx : within S idx idx.
Proof. unfold within. rewrite N.lxor_nilpotent. apply N.ldiff_0_l. Qed.

Ltac bits_case :=
  let k := fresh "k" in
  apply N.bits_inj; intro k;
  repeat rewrite ?N.ldiff_spec, ?N.lxor_spec, ?N.lor_spec, ?N.land_spec, ?N.bits_0;
  repeat match goal with
         | |- context [N.testbit ?x ?j] => is_var x; destruct (N.testbit x j)
         end; reflexivity.

Lemma within_lxor S idx : within S (N.lxor idx S) idx.
Proof. unfold within. bits_case. Qed.

Lemma within_lxor_sub S m idx : N.ldiff m S = 0 -> within S (N.lxor idx m) idx.
Proof.
  unfold within. intro H. apply N.bits_inj. intro k.
  assert (X := f_equal (fun x => N.testbit x k) H). cbn beta in X.
  rewrite N.ldiff_spec, N.bits_0 in X.
  rewrite N.ldiff_spec, !N.lxor_spec, N.bits_0.
  destruct (N.testbit idx k), (N.testbit m k), (N.testbit S k); try reflexivity; discriminate.
Qed.

Lemma ldiff_lor_l a b : N.ldiff a (N.lor a b) = 0.
Proof. bits_case. Qed.
Lemma ldiff_lor_r a b : N.ldiff b (N.lor a b) = 0.
Proof. bits_case. Qed.
Lemma ldiff_self a : N.ldiff a a = 0.
Proof. bits_case. Qed.

Lemma within_ldiff S idx : within S (N.ldiff idx S) idx.
Proof. unfold within. bits_case. Qed.
Lemma within_ldiff_lor S idx : within S (N.lor (N.ldiff idx S) S) idx.
Proof. unfold within. bits_case. Qed.

(** an index within a support disjoint from [c] has the same control status *)
Lemma within_ctrl_ok S c i idx : N.land S c = 0 -> within S i idx -> ctrl_ok c i = ctrl_ok c idx.
Proof.
  unfold within, ctrl_ok. intros Hd Hw. f_equal.
  apply N.bits_inj. intro k.
  assert (X := f_equal (fun x => N.testbit x k) Hd).
  assert (Y := f_equal (fun x => N.testbit x k) Hw). cbn beta in X, Y.
  rewrite N.land_spec, N.bits_0 in X. rewrite N.ldiff_spec, N.lxor_spec, N.bits_0 in Y.
  rewrite !N.ldiff_spec.
  destruct (N.testbit c k), (N.testbit S k), (N.testbit i k), (N.testbit idx k); try reflexivity; discriminate.
Qed.

Lemma within_mono S T i idx : N.ldiff S T = 0 -> within S i idx -> within T i idx.
Proof.
  unfold within. intros H1 H2. apply N.bits_inj. intro k.
  assert (X := f_equal (fun x => N.testbit x k) H1).
  assert (Y := f_equal (fun x => N.testbit x k) H2). cbn beta in X, Y.
  rewrite N.ldiff_spec, N.bits_0 in X. rewrite N.ldiff_spec, N.lxor_spec, N.bits_0 in Y.
  rewrite N.ldiff_spec, N.lxor_spec, N.bits_0.
  destruct (N.testbit S k), (N.testbit T k), (N.testbit i k), (N.testbit idx k); try reflexivity; discriminate.
Qed.

Section Local.
  Context {F : Type} (OP : ops F).
  Local Notation vec := (@vec F).

  (** the qubits a kernel touches ([acts_on], except that the two-qubit matrix gate
      reports only its first mask) *)
  Definition support (g : atomic F) : N :=
    match g with
    | AU2 a b _ => N.lor a b
    | _ => acts_on g
    end.

  Definition local (S : N) (f : vec -> vec) : Prop :=
    forall psi psi' idx, (forall i, within S i idx -> psi i = psi' i) -> f psi idx = f psi' idx.

  Lemma kernel_local g : local (support g) (kernel OP g).
  Proof.
    intros psi psi' idx H.
    assert (H0 : psi idx = psi' idx) by (apply H, within_refl).
    destruct g; cbn [kernel support acts_on] in *;
      rewrite ?H0;
      try rewrite (H (N.lxor idx m)) by apply within_lxor;
      try reflexivity.
    - (* H2 *)
      rewrite (H (N.lxor idx a)) by (apply within_lxor_sub, ldiff_lor_l).
      rewrite (H (N.lxor idx b)) by (apply within_lxor_sub, ldiff_lor_r).
      rewrite (H (N.lxor idx (N.lor a b))) by apply within_lxor.
      reflexivity.
    - (* U1 *)
      rewrite (H (N.ldiff idx m)) by apply within_ldiff.
      rewrite (H (N.lor (N.ldiff idx m) m)) by apply within_ldiff_lor.
      reflexivity.
    - (* U2 *)
      assert (E0 : within (N.lor a b) (N.ldiff (N.ldiff idx a) b) idx) by (unfold within; bits_case).
      assert (E1 : within (N.lor a b) (N.lor (N.ldiff (N.ldiff idx a) b) a) idx) by (unfold within; bits_case).
      assert (E2 : within (N.lor a b) (N.lor (N.ldiff (N.ldiff idx a) b) b) idx) by (unfold within; bits_case).
      assert (E3 : within (N.lor a b) (N.lor (N.lor (N.ldiff (N.ldiff idx a) b) a) b) idx) by (unfold within; bits_case).
      rewrite (H _ E0), (H _ E1), (H _ E2), (H _ E3). reflexivity.
  Qed.

  (** well-formed single operator: the recorded target mask is the kernel's support *)
  Definition wf_single (s : single F) : Prop :=
    s_act s = support (s_func s).

  Lemma single_fn_local s : wf_single s -> local (s_act s) (single_fn OP s).
  Proof.
    intros Hwf psi psi' idx H. unfold single_fn. rewrite Hwf in H.
    rewrite (kernel_local (s_func s) psi psi' idx H).
    rewrite (H idx (within_refl _ _)). reflexivity.
  Qed.
End Local.
