(** * C09T: the interpreter's gate names are bound to the right operators *)
From Coq Require Import Reals Lia String Ascii ZArith.
From QV Require Import Interp Spec Expr ScalarR BitsP OpP LocalP WfP C02T.
Open Scope N_scope.
Open Scope string_scope.

(** the name table, lower and upper case: each accepted stem builds the operator of the same
    name (sdg / tdg the daggers), parameters in written order, after the arity checks *)
Definition C09_table_stmt : Prop :=
  forall (F : Type) (OP : ops F) (m : N) (a b c : F),
    m <> 0 -> ffinite OP a = true -> ffinite OP b = true -> ffinite OP c = true ->
    let G := gates_process OP in
    (G "x" [m] [] = IOk (op_x m) /\ G "X" [m] [] = IOk (op_x m)) /\
    (G "y" [m] [] = IOk (op_y m) /\ G "Y" [m] [] = IOk (op_y m)) /\
    (G "z" [m] [] = IOk (op_z m) /\ G "Z" [m] [] = IOk (op_z m)) /\
    (G "s" [m] [] = IOk (op_s m) /\ G "S" [m] [] = IOk (op_s m)) /\
    (G "sdg" [m] [] = IOk (multi_dgr OP (op_s m)) /\ G "SDG" [m] [] = IOk (multi_dgr OP (op_s m))) /\
    (G "t" [m] [] = IOk (op_t m) /\ G "T" [m] [] = IOk (op_t m)) /\
    (G "tdg" [m] [] = IOk (multi_dgr OP (op_t m)) /\ G "TDG" [m] [] = IOk (multi_dgr OP (op_t m))) /\
    (G "h" [m] [] = of_op (op_h m) /\ G "H" [m] [] = of_op (op_h m)) /\
    (G "qft" [m] [] = of_op (op_qft OP m) /\ G "QFT" [m] [] = of_op (op_qft OP m)) /\
    (popcount m = 1 ->
       (G "rx" [m] [a] = of_op (op_rx OP a m) /\ G "RX" [m] [a] = of_op (op_rx OP a m)) /\
       (G "ry" [m] [a] = of_op (op_ry OP a m) /\ G "RY" [m] [a] = of_op (op_ry OP a m)) /\
       (G "rz" [m] [a] = of_op (op_rz OP a m) /\ G "RZ" [m] [a] = of_op (op_rz OP a m)) /\
       (G "u1" [m] [a] = of_op (op_u1 OP a m) /\ G "U1" [m] [a] = of_op (op_u1 OP a m)) /\
       (G "u2" [m] [a; b] = of_op (op_u2 OP a b m) /\ G "U2" [m] [a; b] = of_op (op_u2 OP a b m)) /\
       (G "u3" [m] [a; b; c] = of_op (op_u3 OP a b c m) /\ G "U3" [m] [a; b; c] = of_op (op_u3 OP a b c m))) /\
    (popcount m = 2 ->
       (G "rxx" [m] [a] = of_op (op_rxx OP a m) /\ G "RXX" [m] [a] = of_op (op_rxx OP a m)) /\
       (G "ryy" [m] [a] = of_op (op_ryy OP a m) /\ G "RYY" [m] [a] = of_op (op_ryy OP a m)) /\
       (G "rzz" [m] [a] = of_op (op_rzz OP a m) /\ G "RZZ" [m] [a] = of_op (op_rzz OP a m)) /\
       (G "swap" [m] [] = of_op (op_swap OP m) /\ G "SWAP" [m] [] = of_op (op_swap OP m)) /\
       (G "sqrt_swap" [m] [] = of_op (op_sqrt_swap OP m) /\ G "SQRT_SWAP" [m] [] = of_op (op_sqrt_swap OP m)) /\
       (G "i_swap" [m] [] = of_op (op_i_swap OP m) /\ G "I_SWAP" [m] [] = of_op (op_i_swap OP m)) /\
       (G "sqrt_i_swap" [m] [] = of_op (op_sqrt_i_swap OP m) /\ G "SQRT_I_SWAP" [m] [] = of_op (op_sqrt_i_swap OP m))).

Lemma lor_all_1 m : lor_all [m] = m.
Proof. unfold lor_all. cbn [fold_left]. apply N.lor_0_l. Qed.

Lemma C09_table_proof : C09_table_stmt.
Proof.
  intros F OP m a b c Hm Ha Hb Hc G. subst G.
  assert (E0 : N.eqb m 0 = false) by (apply N.eqb_neq; exact Hm).
  unfold gates_process. cbn [all_finite forallb negb].
  rewrite ?Ha, ?Hb, ?Hc. cbn [andb negb].
  repeat split;
    try (cbn; unfold gate_any; rewrite lor_all_1, E0; reflexivity);
    cbn; unfold gate_r, gate_2, gate_u2, gate_u3; rewrite lor_all_1;
    match goal with H : popcount m = _ |- _ => rewrite H end; reflexivity.
Qed.

(** a leading c / C turns the first register argument into a control of the remaining gate
    (recursively, so any number of leading c); a controlled u1 is a controlled phase shift *)
Definition C09_prefix_stmt : Prop :=
  forall (F : Type) (OP : ops F) (stem : string) (ctrl : N) (rest : list N) (args : list F),
    all_finite OP args = true ->
    is_name stem "u1" "U1" = false ->
    (forall cname, cname = String "c"%char stem \/ cname = String "C"%char stem ->
       gates_process OP cname (ctrl :: rest) args =
       match gates_process OP stem rest args with
       | IOk o => match multi_c o ctrl with
                  | Some o' => IOk o'
                  | None => IErr (InvalidControlMask ctrl (multi_act_on o))
                  end
       | IErr (WrongRegNumber _ num) => IErr (WrongRegNumber cname (1 + num))
       | IErr (WrongArgNumber _ num) => IErr (WrongArgNumber cname num)
       | IErr (UnknownGate _) => IErr (UnknownGate cname)
       | r => r
       end) /\
    (forall lam t, ffinite OP lam = true -> popcount t = 1 ->
       gates_process OP "cu1" [ctrl; t] [lam] =
       match op_phase_shift OP lam t with
       | Some o => match multi_c o ctrl with
                   | Some o' => IOk o'
                   | None => IErr (InvalidControlMask ctrl (multi_act_on o))
                   end
       | None => IPanic 3
       end).

Lemma gpf_step {F} (OP : ops F) fuel name regs args :
  gates_process_from OP (S fuel) name regs args =
  if starts_with_c name then
    match regs with
    | [] => IErr (WrongRegNumber name 0)
    | ctrl :: rest =>
        let stem := Interp.tail name in
        let inner :=
          if is_name stem "u1" "U1"
          then gate_r stem 1 (fun a r => of_op (op_phase_shift OP a r)) rest args
          else gates_process_from OP fuel stem rest args in
        match inner with
        | IOk o =>
            match multi_c o ctrl with
            | Some o' => IOk o'
            | None => IErr (InvalidControlMask ctrl (multi_act_on o))
            end
        | IErr (WrongRegNumber _ num) => IErr (WrongRegNumber name (1 + num))
        | IErr (WrongArgNumber _ num) => IErr (WrongArgNumber name num)
        | IErr (UnknownGate _) => IErr (UnknownGate name)
        | r => r
        end
    end
  else gate_table OP name regs args.
Proof. reflexivity. Qed.

Lemma C09_prefix_proof : C09_prefix_stmt.
Proof.
  intros F OP stem ctrl rest args Hfin Hu1. split.
  - intros cname [-> | ->]; unfold gates_process; rewrite Hfin; cbn [negb String.length];
      rewrite gpf_step; cbn [starts_with_c Ascii.eqb Bool.eqb orb Interp.tail]; cbv zeta;
      rewrite Hu1;
      (destruct (gates_process_from OP (S (String.length stem)) stem rest args) as [o|e|w];
       [reflexivity|destruct e; reflexivity|reflexivity]).
  - intros lam t Hl Ht. unfold gates_process. cbn [all_finite forallb]. rewrite Hl. cbn [andb negb String.length].
    rewrite gpf_step. cbn [starts_with_c Ascii.eqb Bool.eqb orb Interp.tail]. cbv zeta.
    cbn [is_name String.eqb Ascii.eqb Bool.eqb orb].
    unfold gate_r. rewrite lor_all_1, Ht. cbn [N.eqb Pos.eqb negb of_op].
    destruct (op_phase_shift OP lam t); reflexivity.
Qed.

(** semantics of the prefix at the real instance: the c-prefixed gate applies the remaining gate
    where the control qubit(s) are 1 and leaves every other basis state untouched *)
Definition C09_prefix_semantics_stmt : Prop :=
  forall (stem : string) (ctrl : N) (rest : list N) (args : list R) (o : multi R),
    is_name stem "u1" "U1" = false ->
    gates_process Rops stem rest args = IOk o ->
    Forall (@wf_single R) o -> N.land (multi_act_on o) ctrl = 0 ->
    exists o', gates_process Rops (String "c"%char stem) (ctrl :: rest) args = IOk o' /\
               forall psi idx, multi_fn Rops o' psi idx =
                               if ctrl_ok ctrl idx then multi_fn Rops o psi idx else psi idx.

Lemma C09_prefix_semantics_proof : C09_prefix_semantics_stmt.
Proof.
  intros stem ctrl rest args o Hu1 Ho Hwf Hd.
  assert (Hfin : all_finite Rops args = true).
  { unfold all_finite. apply forallb_forall. intros x _. reflexivity. }
  destruct (C09_prefix_proof R Rops stem ctrl rest args Hfin Hu1) as [H _].
  rewrite (H (String "c"%char stem) (or_introl eq_refl)), Ho.
  unfold multi_c. rewrite Hd. cbn [N.eqb negb]. eexists. split; [reflexivity|].
  intros psi idx. apply (multi_c_fn Rops o ctrl Hwf Hd psi psi). reflexivity.
Qed.
