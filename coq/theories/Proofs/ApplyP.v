(** * ApplyP: the register path.  Applying an operator to the amplitude buffer of a register
    ([multi_apply], one [tab] sweep per element) computes, cell for cell, the same thing as the
    function-level operator ([multi_fn]) on the buffer read as a function that is zero outside the
    buffer -- for every product of good elements whose masks lie inside the buffer.  All
    function-level theorems (C01, C02, C03, C04, C15) therefore speak about registers, including
    the padded 8-entry buffers of registers with fewer than three qubits. *)
From Coq Require Import Reals Lra Lia.
From QV Require Import Spec Reg ScalarR BitsP BitsIterP VecP OpP LocalP C01P C03P RotP C01M C03M C03T C03T2 RegP NormP Form2P.
Open Scope R_scope.

Definition zout (k : nat) (psi : vecR) : Prop := forall i, (p2 k <= i)%N -> psi i = c0 Rops.

Lemma lxor_high k i m : (p2 k <= i)%N -> (m < p2 k)%N -> (p2 k <= N.lxor i m)%N.
Proof.
  intros Hi Hm. destruct (N.lt_ge_cases (N.lxor i m) (p2 k)) as [L|G]; [|exact G].
  exfalso. assert (H := lxor_lt_p2 k _ _ L Hm). rewrite lxor_twice in H. lia.
Qed.

Lemma simple_zout k (s : single R) psi : simple s -> (single_act_on s < p2 k)%N -> zout k psi -> zout k (single_fn Rops s psi).
Proof.
  intros [Hs W] Hlt Hz i Hi. rewrite (single_form2x s Hs W psi i).
  unfold single_act_on in Hlt. destruct (lor_lt_p2 _ _ _ Hlt) as [Hact _].
  rewrite (Hz i Hi), (Hz _ (lxor_high k i _ Hi Hact)).
  generalize (sA s (N.land i (single_act_on s))), (sB s (N.land i (single_act_on s))). intros [a a'] [b b']. cxring.
Qed.

Lemma multi_simple_zout k (q : multi R) : forall psi, Forall simple q ->
  Forall (fun s => (single_act_on s < p2 k)%N) q -> zout k psi -> zout k (multi_fn Rops q psi).
Proof.
  induction q as [|s q IH]; intros psi Hs Hb Hz; [exact Hz|].
  inversion Hs; subst. inversion Hb; subst. rewrite multi_fn_cons. apply IH; try assumption.
  apply simple_zout; assumption.
Qed.

Lemma expand_bound k (s : single R) : wf_single s -> (single_act_on s < p2 k)%N ->
  Forall (fun t => (single_act_on t < p2 k)%N) (expand s).
Proof.
  intros W Hlt. destruct s as [act ctrl g]. unfold expand. cbn [s_func s_ctrl].
  destruct g; try (constructor; [exact Hlt|constructor]).
  unfold wf_single in W. cbn [s_act s_func support acts_on] in W. subst act.
  unfold single_act_on in *. cbn [s_act s_ctrl] in *.
  destruct (lor_lt_p2 _ _ _ Hlt) as [Hab Hc]. destruct (lor_lt_p2 _ _ _ Hab) as [Ha Hb].
  assert (L : forall x y, (x < p2 k)%N -> (y < p2 k)%N -> (N.lor x y < p2 k)%N).
  { intros x y Hx Hy. apply lt_p2_bits. intros t Ht. rewrite N.lor_spec.
    rewrite (testbit_lt_pow2 x t (N.of_nat k) Hx Ht), (testbit_lt_pow2 y t (N.of_nat k) Hy Ht). reflexivity. }
  constructor; [apply L; assumption|]. constructor; [apply L; assumption|constructor].
Qed.

Lemma good_zout k (s : single R) psi : good_single s -> (single_act_on s < p2 k)%N -> zout k psi -> zout k (single_fn Rops s psi).
Proof.
  intros G Hlt Hz i Hi. rewrite <- (expand_fn s G psi i).
  apply (multi_simple_zout k (expand s) psi); [apply expand_simple; exact G| |exact Hz|exact Hi].
  apply expand_bound; [apply G|exact Hlt].
Qed.

Lemma get_zout (v : bufR) k : length v = Nat.pow 2 k -> zout k (get Rops v).
Proof.
  intros Hl i Hi. apply get_out. rewrite Hl. rewrite <- of_nat_pow2 in Hi. lia.
Qed.

Lemma get_tab_all len k (f : vecR) : len = Nat.pow 2 k -> zout k f -> forall i, get Rops (tab len f) i = f i.
Proof.
  intros Hl Hz i. destruct (Nat.ltb_spec (N.to_nat i) len) as [L|G].
  - apply get_tab. exact L.
  - rewrite get_tab_out by exact G. symmetry. apply Hz. rewrite <- of_nat_pow2. lia.
Qed.

Theorem apply_is_fn k (q : multi R) : Forall good_single q ->
  Forall (fun s => (single_act_on s < p2 k)%N) q ->
  forall (v : bufR), length v = Nat.pow 2 k ->
  forall i, get Rops (multi_apply Rops q v) i = multi_fn Rops q (get Rops v) i.
Proof.
  induction q as [|s q IH]; intros G B v Hl i; [reflexivity|].
  inversion G as [|s0 q0 G1 G2]; subst. inversion B as [|s1 q1 B1 B2]; subst.
  change (multi_apply Rops (s :: q) v) with (multi_apply Rops q (single_apply Rops s v)).
  rewrite multi_fn_cons.
  assert (Hl' : length (single_apply Rops s v) = Nat.pow 2 k) by (unfold single_apply; rewrite tab_length; exact Hl).
  rewrite (IH G2 B2 _ Hl' i). apply multi_fn_ext. intro j.
  unfold single_apply. apply (get_tab_all (length v) k); [exact Hl|].
  apply good_zout; [exact G1|exact B1|apply get_zout; exact Hl].
Qed.
