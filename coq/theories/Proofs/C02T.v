(** * C02T: controlled operators act only where all control qubits are 1.
    Generic in the scalar instance; stated at [Rops]. *)
From Coq Require Import Reals Lia.
From QV Require Import Spec Expr ScalarR BitsP OpP LocalP WfP.
Open Scope N_scope.

Section C02.
  Context {F : Type} (OP : ops F).
  Local Notation vec := (@vec F).

  Definition wf_multi (q : multi F) : Prop := Forall wf_single q.

  Lemma ctrl_ok_lor a b idx : ctrl_ok (N.lor a b) idx = ctrl_ok a idx && ctrl_ok b idx.
  Proof.
    unfold ctrl_ok.
    destruct (N.eqb_spec (N.ldiff a idx) 0) as [Ha|Ha], (N.eqb_spec (N.ldiff b idx) 0) as [Hb|Hb]; cbn [andb].
    - apply N.eqb_eq. apply N.bits_inj. intro k.
      assert (X := f_equal (fun x => N.testbit x k) Ha). assert (Y := f_equal (fun x => N.testbit x k) Hb).
      cbn beta in X, Y. rewrite N.ldiff_spec, N.bits_0 in *. rewrite N.lor_spec.
      destruct (N.testbit a k), (N.testbit b k), (N.testbit idx k); try reflexivity; discriminate.
    - apply N.eqb_neq. intro E. apply Hb. apply N.bits_inj. intro k.
      assert (X := f_equal (fun x => N.testbit x k) E). cbn beta in X.
      rewrite N.ldiff_spec, N.lor_spec, N.bits_0 in X. rewrite N.ldiff_spec, N.bits_0.
      destruct (N.testbit a k), (N.testbit b k), (N.testbit idx k); try reflexivity; discriminate.
    - apply N.eqb_neq. intro E. apply Ha. apply N.bits_inj. intro k.
      assert (X := f_equal (fun x => N.testbit x k) E). cbn beta in X.
      rewrite N.ldiff_spec, N.lor_spec, N.bits_0 in X. rewrite N.ldiff_spec, N.bits_0.
      destruct (N.testbit a k), (N.testbit b k), (N.testbit idx k); try reflexivity; discriminate.
    - apply N.eqb_neq. intro E. apply Ha. apply N.bits_inj. intro k.
      assert (X := f_equal (fun x => N.testbit x k) E). cbn beta in X.
      rewrite N.ldiff_spec, N.lor_spec, N.bits_0 in X. rewrite N.ldiff_spec, N.bits_0.
      destruct (N.testbit a k), (N.testbit b k), (N.testbit idx k); try reflexivity; discriminate.
  Qed.

  (** one element: adding controls [c] = "apply where [c] is all ones, copy elsewhere" *)
  Lemma single_c_fn s c (psi : vec) idx :
    single_fn OP (single_c_unchecked s c) psi idx =
    if ctrl_ok c idx then single_fn OP s psi idx else psi idx.
  Proof.
    unfold single_fn, single_c_unchecked. cbn [s_ctrl s_func].
    destruct (N.eqb_spec (s_ctrl s) 0) as [E|E].
    - rewrite E, N.lor_0_l.
      destruct (N.eqb_spec c 0) as [Ec|Ec]; [subst c; rewrite ctrl_ok_0; reflexivity|reflexivity].
    - destruct (N.eqb_spec (N.lor (s_ctrl s) c) 0) as [E2|E2].
      + exfalso. apply E. apply N.lor_eq_0_iff in E2. tauto.
      + rewrite ctrl_ok_lor.
        destruct (ctrl_ok (s_ctrl s) idx), (ctrl_ok c idx); reflexivity.
  Qed.

  Lemma fold_act_on (q : multi F) : forall a,
    fold_left (fun a s => N.lor a (single_act_on s)) q a =
    N.lor a (fold_left (fun a s => N.lor a (single_act_on s)) q 0).
  Proof.
    induction q as [|t q IH]; intro a; cbn [fold_left].
    - rewrite N.lor_0_r. reflexivity.
    - rewrite IH. rewrite (IH (N.lor 0 (single_act_on t))). rewrite N.lor_0_l. rewrite N.lor_assoc. reflexivity.
  Qed.

  Lemma multi_act_on_cons (s : single F) (q : multi F) :
    multi_act_on (s :: q) = N.lor (single_act_on s) (multi_act_on q).
  Proof.
    unfold multi_act_on. cbn [fold_left]. rewrite fold_act_on, N.lor_0_l. reflexivity.
  Qed.

  Lemma land_lor_0 a b c : N.land (N.lor a b) c = 0 -> N.land a c = 0 /\ N.land b c = 0.
  Proof.
    intro H. rewrite N.land_lor_distr_l in H. apply N.lor_eq_0_iff in H. exact H.
  Qed.

  (** the core: controls distribute over a product whose support is disjoint from them *)
  Lemma multi_c_fn q c : wf_multi q -> N.land (multi_act_on q) c = 0 ->
    forall (psi psi' : vec),
      (forall i, ctrl_ok c i = true -> psi i = psi' i) ->
      forall idx,
        multi_fn OP (map (fun s => single_c_unchecked s c) q) psi idx =
        if ctrl_ok c idx then multi_fn OP q psi' idx else psi idx.
  Proof.
    induction q as [|s q IH]; intros Hwf Hd psi psi' Hag idx.
    - cbn. destruct (ctrl_ok c idx) eqn:E; [apply Hag; exact E|reflexivity].
    - rewrite multi_act_on_cons in Hd. apply land_lor_0 in Hd. destruct Hd as [Hs Hq].
      inversion Hwf as [|s0 q0 Hws Hwq]; subst.
      cbn [map]. rewrite !multi_fn_cons.
      rewrite (IH Hwq Hq (single_fn OP (single_c_unchecked s c) psi) (single_fn OP s psi')).
      + destruct (ctrl_ok c idx) eqn:E; [reflexivity|].
        rewrite single_c_fn, E. reflexivity.
      + intros i Hi. rewrite single_c_fn, Hi.
        (* locality: [single_fn s] at a [c]-ok index reads only [c]-ok indices *)
        unfold single_act_on in Hs. apply land_lor_0 in Hs. destruct Hs as [Hact Hctl].
        apply (single_fn_local OP s Hws). intros i' Hw.
        apply Hag. rewrite (within_ctrl_ok (s_act s) c i' i Hact Hw). exact Hi.
  Qed.
End C02.

(** ** statements *)

Definition C02_semantics_stmt : Prop :=
  forall (q q' : multi R) (c : N),
    wf_multi q -> multi_c q c = Some q' ->
    forall (psi : @vec R) (idx : N),
      multi_fn Rops q' psi idx = ctrl_spec c (multi_fn Rops q) psi idx.

Lemma C02_semantics_proof : C02_semantics_stmt.
Proof.
  intros q q' c Hwf Hc psi idx. unfold multi_c in Hc.
  destruct (N.eqb_spec (N.land (multi_act_on q) c) 0) as [E|E]; cbn [negb] in Hc; [|discriminate].
  injection Hc as <-. unfold ctrl_spec.
  apply (multi_c_fn Rops q c Hwf E psi psi). reflexivity.
Qed.

(** refused exactly when the control mask overlaps a qubit the operator acts on or is
    already controlled by *)
Definition C02_refusal_stmt : Prop :=
  forall (q : multi R) (s : single R) (c : N),
    (multi_c q c = None <-> N.land (multi_act_on q) c <> 0) /\
    (single_c s c = None <-> N.land (N.lor (s_act s) (s_ctrl s)) c <> 0).

Lemma C02_refusal_proof : C02_refusal_stmt.
Proof.
  intros q s c. unfold multi_c, single_c, single_act_on. split.
  - destruct (N.eqb_spec (N.land (multi_act_on q) c) 0) as [E|E]; cbn [negb]; split; intro H;
      try discriminate; try reflexivity; try contradiction; exact E.
  - destruct (N.eqb_spec (N.land (N.lor (s_act s) (s_ctrl s)) c) 0) as [E|E]; cbn [negb]; split; intro H;
      try discriminate; try reflexivity; try contradiction; exact E.
Qed.

(** the touched qubits of a controlled (non-empty) operator are targets plus all controls;
    controlling twice is controlling by the union; control mask 0 changes nothing *)
Definition C02_act_on_stmt : Prop :=
  forall (q q' : multi R) (c : N),
    multi_c q c = Some q' ->
    (q <> [] -> multi_act_on q' = N.lor (multi_act_on q) c) /\
    (q = [] -> q' = []) /\
    (c = 0 -> forall psi idx, multi_fn Rops q' psi idx = multi_fn Rops q psi idx) /\
    (forall d q'', multi_c q' d = Some q'' -> multi_c q (N.lor c d) = Some q'').

Lemma multi_act_on_map_c (q : multi R) c : q <> [] ->
  multi_act_on (map (fun s => single_c_unchecked s c) q) = N.lor (multi_act_on q) c.
Proof.
  induction q as [|s q IH]; [congruence|]. intros _.
  cbn [map]. rewrite !multi_act_on_cons.
  destruct q as [|t q].
  - cbn [map]. unfold multi_act_on at 1 2. cbn [fold_left]. rewrite !N.lor_0_r.
    unfold single_act_on, single_c_unchecked. cbn [s_act s_ctrl]. apply N.lor_assoc.
  - rewrite IH by discriminate.
    unfold single_act_on, single_c_unchecked. cbn [s_act s_ctrl].
    apply N.bits_inj. intro k. rewrite !N.lor_spec.
    repeat match goal with |- context [N.testbit ?x k] => destruct (N.testbit x k) end; reflexivity.
Qed.

Lemma C02_act_on_proof : C02_act_on_stmt.
Proof.
  intros q q' c Hc. unfold multi_c in Hc.
  destruct (N.eqb_spec (N.land (multi_act_on q) c) 0) as [E|E]; cbn [negb] in Hc; [|discriminate].
  injection Hc as <-. repeat split.
  - intro Hne. apply multi_act_on_map_c. exact Hne.
  - intros ->. reflexivity.
  - intros -> psi idx.
    replace (map (fun s => single_c_unchecked s 0) q) with q; [reflexivity|].
    induction q as [|s q IH]; [reflexivity|]. cbn [map]. f_equal.
    + unfold single_c_unchecked. rewrite N.lor_0_r. destruct s; reflexivity.
    + apply IH. rewrite multi_act_on_cons in E. apply N.land_0_r.
  - intros d q'' Hd. unfold multi_c in *.
    destruct q as [|s q].
    + cbn in *. injection Hd as <-. reflexivity.
    + rewrite multi_act_on_map_c in Hd by discriminate.
      destruct (N.eqb_spec (N.land (N.lor (multi_act_on (s :: q)) c) d) 0) as [E2|E2]; cbn [negb] in Hd; [|discriminate].
      injection Hd as <-.
      apply land_lor_0 in E2. destruct E2 as [E2 _].
      assert (E3 : N.land (multi_act_on (s :: q)) (N.lor c d) = 0).
      { rewrite N.land_lor_distr_r, E, E2. reflexivity. }
      rewrite E3. cbn [N.eqb negb]. f_equal.
      change (single_c_unchecked (single_c_unchecked s c) d
              :: map (fun s0 : single R => single_c_unchecked s0 d)
                   (map (fun s0 : single R => single_c_unchecked s0 c) q))
        with (map (fun s0 : single R => single_c_unchecked s0 d)
                  (map (fun s0 : single R => single_c_unchecked s0 c) (s :: q))).
      rewrite map_map. apply map_ext.
      intro a. unfold single_c_unchecked. cbn [s_act s_ctrl s_func]. f_equal. apply N.lor_assoc.
Qed.

(** for every operator expression of the public API (single gate, product, dagger, already
    controlled operator): [.c(mask)] yields the operator that applies the original map where
    every control bit is 1 and leaves every other basis state untouched -- no stray phase:
    the else-branch is the input cell itself *)
Definition C02_expr_stmt : Prop :=
  forall (e : opexpr R) (c : N) (q : multi R),
    eval Rops e = ROk q ->
    (N.land (multi_act_on q) c = 0 ->
       exists q', eval Rops (EC c e) = ROk q' /\
                  forall psi idx, multi_fn Rops q' psi idx =
                                  if ctrl_ok c idx then multi_fn Rops q psi idx else psi idx) /\
    (N.land (multi_act_on q) c <> 0 -> eval Rops (EC c e) = RRefused).

Lemma C02_expr_proof : C02_expr_stmt.
Proof.
  intros e c q He. split; intro H; cbn [eval]; rewrite He; unfold multi_c.
  - rewrite H. cbn [N.eqb negb]. eexists. split; [reflexivity|]. intros psi idx.
    apply (multi_c_fn Rops q c (eval_wf Rops e q He) H psi psi). reflexivity.
  - destruct (N.eqb_spec (N.land (multi_act_on q) c) 0) as [E|E]; [contradiction|reflexivity].
Qed.
