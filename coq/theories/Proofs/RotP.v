(** * RotP: [rotate] is multiplication by i^q; arithmetic of the quarter-turn counters *)
From Coq Require Import Reals Lra Lia.
From QV Require Import Spec ScalarR BitsP.
Open Scope N_scope.

Lemma low_bits q :
  (N.testbit q 0, N.testbit q 1) =
  match q mod 4 with 0 => (false, false) | 1 => (true, false) | 2 => (false, true) | _ => (true, true) end.
Proof.
  assert (H := N.div_mod q 4 ltac:(discriminate)).
  assert (Hr : q mod 4 < 4) by (apply N.mod_lt; discriminate).
  set (a := q / 4) in *. set (r := q mod 4) in *.
  assert (B0 : N.testbit q 0 = N.odd r).
  { rewrite N.bit0_odd, H. replace (4 * a + r) with (r + 2 * (2 * a)) by lia. apply N.odd_add_mul_2. }
  assert (B1 : N.testbit q 1 = N.odd (r / 2)).
  { replace (N.testbit q 1) with (N.testbit (q / 2) 0) by (apply (N.div2_bits q 0)). rewrite N.bit0_odd.
    assert (E : q / 2 = r / 2 + 2 * a).
    { rewrite H. replace (4 * a + r) with (r + (2 * a) * 2) by lia. rewrite N.div_add by discriminate. lia. }
    rewrite E. apply N.odd_add_mul_2. }
  rewrite B0, B1.
  destruct r as [|[[|[]|]|[|[]|]|]]; try lia; reflexivity.
Qed.

Definition iz (z : C R) : C R := ((- snd z)%R, fst z).
Definition negz (z : C R) : C R := ((- fst z)%R, (- snd z)%R).

Lemma rotate_mod4 z q :
  rotate Rops z q =
  match q mod 4 with 0 => z | 1 => iz z | 2 => negz z | _ => iz (negz z) end.
Proof.
  unfold rotate. assert (H := low_bits q).
  destruct (q mod 4) as [|[[|[]|]|[|[]|]|]]; injection H as -> ->; destruct z as [x y];
    unfold cneg, iz, negz, re, im; cbn [fst snd fneg Rops]; reflexivity.
Qed.

Lemma rotate_add z a b : rotate Rops (rotate Rops z a) b = rotate Rops z (a + b).
Proof.
  rewrite !rotate_mod4.
  assert (E : (a + b) mod 4 = (a mod 4 + b mod 4) mod 4) by (apply N.add_mod; discriminate).
  rewrite E.
  assert (Ha : a mod 4 < 4) by (apply N.mod_lt; discriminate).
  assert (Hb : b mod 4 < 4) by (apply N.mod_lt; discriminate).
  destruct z as [x y].
  destruct (a mod 4) as [|[[|[]|]|[|[]|]|]]; try lia;
  destruct (b mod 4) as [|[[|[]|]|[|[]|]|]]; try lia;
    unfold iz, negz; cbn [fst snd N.add Pos.add N.modulo N.div_eucl Pos.succ]; cbn;
    f_equal; ring.
Qed.

Lemma rotate_0 z : rotate Rops z 0 = z.
Proof. reflexivity. Qed.
