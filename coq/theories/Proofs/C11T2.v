(** * C11T2: reset = measure the named qubits, then flip those that read 1.  Afterwards the named
    qubits read 0 with probability 1, and every other qubit has the statistics the measurement left
    (with [C07_total]: unchanged when the outcome of the reset is not looked at). *)
From Coq Require Import Reals Lra Lia.
From QV Require Import Spec Reg ScalarR BitsP BitsIterP VecP OpP C01P C03P C14T RegP C06T NormP C05T C07T2.
Open Scope R_scope.

Lemma wsum_cube (v : bufR) k (P : N -> bool) : length v = Nat.pow 2 k ->
  wsum v P = csum k (fun i => if P i then n2 (get Rops v i) else 0).
Proof. intro Hl. unfold wsum. rewrite Hl. apply nsum_cube. Qed.

(** flipping qubits outside a mask B does not change the weights read on B *)
Lemma flip_weights (v : bufR) k m (P : N -> bool) : length v = Nat.pow 2 k -> (m < p2 k)%N ->
  wsum (single_apply Rops (single_of (AX m)) v) P = wsum v (fun i => P (N.lxor i m)).
Proof.
  intros Hl Hm.
  assert (Hl' : length (single_apply Rops (single_of (AX m)) v) = Nat.pow 2 k) by (unfold single_apply; rewrite tab_length; exact Hl).
  rewrite (wsum_cube _ k P Hl'), (wsum_cube v k _ Hl).
  rewrite <- (csum_xor k (fun i => if P (N.lxor i m) then n2 (get Rops v i) else 0) m Hm).
  apply csum_ext. intros i Hi. rewrite lxor_twice.
  unfold single_apply. rewrite get_tab by (rewrite Hl; rewrite <- of_nat_pow2 in Hi; lia).
  rewrite single_fn_uncontrolled. reflexivity.
Qed.

Definition C11_reset_born_stmt : Prop :=
  forall (r : qreg R) (A B drawn b : N),
    let A' := N.land A (q_mask r) in
    let a := N.land drawn A' in
    shaped r -> A' <> 0%N -> N.land A' B = 0%N ->
    E15 < norm (reg_collapse Rops r drawn A') ->
    (* the register after a reset of A: measured (outcome a), then X on the qubits that read 1 *)
    let r' := fst (reg_measure Rops E15 E9 r A drawn) in
    let r'' := reg_apply Rops r' (op_x a) in
    (* the reset qubits read 0 with probability 1 ... *)
    born (q_psi r'') A' 0 = 1 /\
    (* ... and the other qubits keep the statistics the measurement left: W(a,b) / W(a) *)
    born (q_psi r'') B b * wsum (q_psi r) (agrees A' a) =
      wsum (q_psi r) (fun i => agrees A' a i && agrees B b i)%bool.

Lemma wsum_ext (v : bufR) (P Q : N -> bool) : (forall i, P i = Q i) -> wsum v P = wsum v Q.
Proof. intro H. unfold wsum. apply nsum_ext. intros i _ _. rewrite H. reflexivity. Qed.

Lemma op_x_apply (r : qreg R) m : q_psi (reg_apply Rops r (op_x m)) = single_apply Rops (single_of (AX m)) (q_psi r).
Proof. reflexivity. Qed.

Lemma agrees_flip A a i : N.land a A = a -> agrees A 0 (N.lxor i a) = agrees A a i.
Proof.
  intro Ha. unfold agrees.
  destruct (N.eqb_spec (N.land (N.lxor i a) A) 0) as [E|E]; destruct (N.eqb_spec (N.land i A) a) as [F|F]; try reflexivity; exfalso.
  - apply F. apply N.bits_inj. intro t.
    assert (X := f_equal (fun x => N.testbit x t) E). assert (Y := f_equal (fun x => N.testbit x t) Ha). cbn beta in X, Y.
    rewrite !N.land_spec, ?N.lxor_spec, ?N.bits_0 in *.
    destruct (N.testbit i t), (N.testbit a t), (N.testbit A t); try reflexivity; discriminate.
  - apply E. apply N.bits_inj. intro t.
    assert (X := f_equal (fun x => N.testbit x t) F). assert (Y := f_equal (fun x => N.testbit x t) Ha). cbn beta in X, Y.
    rewrite !N.land_spec, ?N.lxor_spec, ?N.bits_0 in *.
    destruct (N.testbit i t), (N.testbit a t), (N.testbit A t); try reflexivity; discriminate.
Qed.

Lemma agrees_other A B a b i : N.land A B = 0%N -> N.land a A = a -> agrees B b (N.lxor i a) = agrees B b i.
Proof.
  intros D Ha. unfold agrees. f_equal. apply N.bits_inj. intro t.
  assert (X := f_equal (fun x => N.testbit x t) D). assert (Y := f_equal (fun x => N.testbit x t) Ha). cbn beta in X, Y.
  rewrite !N.land_spec, ?N.lxor_spec, ?N.bits_0 in *.
  destruct (N.testbit i t), (N.testbit a t), (N.testbit A t), (N.testbit B t); try reflexivity; discriminate.
Qed.

Lemma sumsq_flip (v : bufR) k m : length v = Nat.pow 2 k -> (m < p2 k)%N ->
  sumsq (single_apply Rops (single_of (AX m)) v) = sumsq v.
Proof.
  intros Hl Hm. rewrite !sumsq_wsum, (flip_weights v k m _ Hl Hm). reflexivity.
Qed.

Lemma C11_reset_born_proof : C11_reset_born_stmt.
Proof.
  intros r A B drawn b A' a Hs HA D Hthr r' r''.
  destruct (C07_chain_proof r A B drawn b HA Hthr) as [Wpos [Hchain Hagain]]. fold A' a r' in Wpos, Hchain, Hagain.
  assert (Ha : N.land a A' = a).
  { unfold a. rewrite <- N.land_assoc, N.land_diag. reflexivity. }
  (* r' is shaped like r *)
  assert (Hm : r' = reg_normalize Rops E15 E9 (reg_collapse Rops r drawn A')).
  { unfold r', reg_measure. fold A'. destruct (N.eqb_spec A' 0); [contradiction|reflexivity]. }
  destruct (normalize_spec (reg_collapse Rops r drawn A') Hthr) as [t [Ht [Hp [Hq [Hmk _]]]]].
  rewrite <- Hm in Hp, Hq, Hmk. cbn [reg_collapse q_psi q_num q_mask] in Hp, Hq, Hmk.
  destruct Hs as [Hl Hmask].
  set (k := Nat.max (N.to_nat (q_num r)) 3).
  assert (Hl' : length (q_psi r') = Nat.pow 2 k).
  { rewrite Hp, scale_length, collapse_length, Hl. apply blen_pow2. }
  assert (Hak : (a < p2 k)%N).
  { assert (Ia : inside a (N.ones (q_num r))).
    { unfold inside, a, A'. rewrite Hmask. unfold mask_n. apply N.bits_inj. intro u.
      rewrite N.ldiff_spec, !N.land_spec, N.bits_0. destruct (N.testbit drawn u), (N.testbit A u), (N.testbit (N.ones (q_num r)) u); reflexivity. }
    apply (inside_ones_lt a (q_num r) k Ia). unfold k. lia. }
  unfold r''. unfold born. rewrite !op_x_apply, (sumsq_flip _ k a Hl' Hak), !(flip_weights _ k a _ Hl' Hak).
  split.
  - rewrite (wsum_ext _ _ (agrees A' a)) by (intro i; apply (agrees_flip A' a i Ha)).
    exact Hagain.
  - rewrite (wsum_ext _ _ (agrees B b)) by (intro i; apply (agrees_other A' B a b i D Ha)).
    exact Hchain.
Qed.
