(** * C03T3: the matrix of the dagger is the conjugate transpose of the matrix *)
From Coq Require Import Reals Lra Lia.
From QV Require Import Spec Reg Expr ScalarR BitsP BitsIterP VecP OpP LocalP C01P C03P RotP C01M C03M C03T C03T2 RegP NormP Form2P ApplyP LinearP AdjointP C14T C05T C01T2.
Open Scope R_scope.

Definition C03_adjoint_stmt : Prop :=
  forall (n : nat) (q : multi R),
    Forall good_single q -> Forall (fun s => (single_act_on s < 2 ^ N.of_nat n)%N) q ->
    forall i j : nat, (i < Nat.pow 2 n)%nat -> (j < Nat.pow 2 n)%nat ->
      nth j (nth i (matrix Rops (multi_dgr Rops q) n) []) (c0 Rops) =
      cconj Rops (nth i (nth j (matrix Rops q n) []) (c0 Rops)).

Lemma dgr_bounds n (q : multi R) : Forall (fun s => (single_act_on s < p2 n)%N) q ->
  Forall (fun s => (single_act_on s < p2 n)%N) (multi_dgr Rops q).
Proof.
  intro H. unfold multi_dgr. apply Forall_rev. apply Forall_map. eapply Forall_impl; [|exact H].
  intros s Hs. exact Hs.
Qed.

Lemma C03_adjoint_proof : C03_adjoint_stmt.
Proof.
  intros n q G B i j Hi Hj.
  assert (Hi' : (N.of_nat i < p2 n)%N) by (rewrite <- of_nat_pow2; lia).
  assert (Hj' : (N.of_nat j < p2 n)%N) by (rewrite <- of_nat_pow2; lia).
  rewrite (matrix_entry _ n i j Hi Hj), (matrix_entry _ n j i Hj Hi).
  rewrite (mat_entry_fn _ n _ _ (good_multi_dgr q G) (dgr_bounds n q B) Hj').
  rewrite (mat_entry_fn _ n _ _ G B Hi').
  apply (dagger_entries n q G B); assumption.
Qed.
