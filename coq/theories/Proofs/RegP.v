(** * RegP: lemmas about the register model at the real-number instance *)
From Coq Require Import Reals Lra Lia.
From QV Require Import Reg ScalarR BitsP VecP C14T.
Open Scope R_scope.

Notation bufR := (@buf R).
Definition E15 : R := / 10 ^ 15.
Definition E9 : R := / 10 ^ 9.

Definition n2 (z : C R) : R := fst z * fst z + snd z * snd z.

Lemma cnorm2_n2 z : cnorm2 Rops z = n2 z.
Proof. reflexivity. Qed.

Lemma n2_nonneg z : 0 <= n2 z.
Proof. unfold n2. nra. Qed.

Lemma n2_zero_iff z : n2 z = 0 <-> z = (0, 0).
Proof.
  destruct z as [x y]. unfold n2. cbn [fst snd]. split.
  - intro H. assert (x = 0) by nra. assert (y = 0) by nra. subst. reflexivity.
  - intro H. injection H as -> ->. ring.
Qed.

(** sum of squared moduli as a right fold *)
Fixpoint sumsq (v : bufR) : R :=
  match v with [] => 0 | z :: t => n2 z + sumsq t end.

Lemma norm2_buf_acc (v : bufR) : forall a,
  fold_left (fun acc z => fadd Rops acc (cnorm2 Rops z)) v a = a + sumsq v.
Proof.
  induction v as [|z v IH]; intro a; cbn [fold_left sumsq].
  - ring.
  - rewrite IH. cbn [fadd Rops]. rewrite cnorm2_n2. ring.
Qed.

Lemma norm2_buf_sumsq (v : bufR) : norm2_buf Rops v = sumsq v.
Proof. unfold norm2_buf. rewrite norm2_buf_acc. cbn [f0 Rops]. ring. Qed.

Lemma sumsq_nonneg v : 0 <= sumsq v.
Proof. induction v as [|z v IH]; cbn [sumsq]; [lra|]. generalize (n2_nonneg z). lra. Qed.

Lemma sumsq_scale v t : sumsq (scale_buf Rops v t) = t * t * sumsq v.
Proof.
  induction v as [|z v IH]; cbn [scale_buf map sumsq]; [ring|].
  change (map (fun z0 => cscale Rops z0 t) v) with (scale_buf Rops v t). rewrite IH.
  unfold n2, cscale, re, im. cbn [fst snd fmul Rops]. ring.
Qed.

Lemma sumsq_app u v : sumsq (u ++ v) = sumsq u + sumsq v.
Proof. induction u as [|z u IH]; cbn [app sumsq]; [ring|rewrite IH; ring]. Qed.

Lemma sumsq_zeros k : sumsq (zeros Rops k) = 0.
Proof. induction k as [|k IH]; cbn [zeros repeat sumsq]; [reflexivity|]. unfold zeros in IH. rewrite IH. unfold n2, c0. cbn. ring. Qed.

(** pointwise domination *)
Lemma sumsq_le (u v : bufR) : length u = length v ->
  (forall i, (i < length u)%nat -> n2 (nth i u (c0 Rops)) <= n2 (nth i v (c0 Rops))) ->
  sumsq u <= sumsq v.
Proof.
  revert v. induction u as [|z u IH]; intros [|w v] Hl H; try discriminate; cbn [sumsq]; [lra|].
  assert (H0 := H 0%nat). cbn [nth length] in H0.
  assert (sumsq u <= sumsq v).
  { apply IH; [cbn in Hl; lia|]. intros i Hi. apply (H (S i)). cbn [length]. lia. }
  assert (n2 z <= n2 w) by (apply H0; lia). lra.
Qed.

(** the collapse: consistent cells kept, the others exactly zero *)
Lemma collapse_get (v : bufR) idy mask i :
  get Rops (collapse_buf Rops v idy mask) i =
  if negb (N.eqb (N.land (N.lxor i idy) mask) 0) then c0 Rops else get Rops v i.
Proof.
  unfold collapse_buf. destruct (Nat.ltb_spec (N.to_nat i) (length v)) as [L|L].
  - rewrite get_tab by exact L. reflexivity.
  - rewrite get_tab_out by exact L. rewrite (get_out Rops v i L). destruct (negb _); reflexivity.
Qed.

Lemma collapse_length (v : bufR) idy mask : length (collapse_buf Rops v idy mask) = length v.
Proof. apply tab_length. Qed.

Lemma scale_get (v : bufR) t i : get Rops (scale_buf Rops v t) i = cscale Rops (get Rops v i) t.
Proof.
  unfold get, scale_buf.
  destruct (Nat.ltb_spec (N.to_nat i) (length v)) as [L|L].
  - rewrite (nth_indep _ _ (cscale Rops (c0 Rops) t)) by (rewrite map_length; exact L).
    apply (map_nth (fun z => cscale Rops z t)).
  - rewrite !nth_overflow by (rewrite ?map_length; exact L).
    unfold cscale, c0, re, im. cbn [fst snd fmul f0 Rops]. f_equal; ring.
Qed.

Lemma scale_length (v : bufR) t : length (scale_buf Rops v t) = length v.
Proof. apply map_length. Qed.

(** what [normalize] does, over R: the state is rescaled by one positive real (or left alone),
    provided its norm is above the reset threshold *)
Lemma normalize_spec (r : qreg R) :
  E15 < sqrt (reg_absolute Rops r) ->
  exists t, 0 < t /\
    q_psi (reg_normalize Rops E15 E9 r) = scale_buf Rops (q_psi r) t /\
    q_num (reg_normalize Rops E15 E9 r) = q_num r /\
    q_mask (reg_normalize Rops E15 E9 r) = q_mask r /\
    (1 - sqrt (reg_absolute Rops r) <= E9 -> t = 1) /\
    (~ 1 - sqrt (reg_absolute Rops r) <= E9 -> t = / sqrt (reg_absolute Rops r)).
Proof.
  intro H. unfold reg_normalize. cbn [fsqrt fleb fsub f1 fdiv Rops]. unfold R_leb.
  destruct (Rle_dec (sqrt (reg_absolute Rops r)) E15) as [L|L]; [lra|].
  destruct (Rle_dec (1 - sqrt (reg_absolute Rops r)) E9) as [L2|L2].
  - exists 1. repeat split; try lra; try tauto.
    symmetry. apply (buf_ext Rops); [apply scale_length|].
    intros i _. rewrite scale_get. destruct (get Rops (q_psi r) i) as [x y].
    unfold cscale, re, im. cbn [fst snd fmul Rops]. f_equal; ring.
  - assert (E15pos : 0 < E15) by (unfold E15; apply Rinv_0_lt_compat; lra).
    exists (/ sqrt (reg_absolute Rops r)). cbn [q_psi q_num q_mask]. repeat split; try tauto.
    + apply Rinv_0_lt_compat. lra.
    + unfold Rdiv. rewrite Rmult_1_l. reflexivity.
Qed.
