(** * C05T: a register always holds a valid quantum state (norm invariant over histories).

    Proved here for every history of apply / measure_mask / set_num steps, with the one-step
    hypothesis that each applied operator preserves the norm of the buffer (the unitarity of the
    kernels is C01/C03 material; its summed form is not proved yet -- see DESIGN.md) and that
    each measurement outcome has more than the reset threshold of probability mass. *)
From Coq Require Import Reals Lra Lia.
From QV Require Import Reg Expr ScalarR BitsP BitsIterP VecP OpP C14T RegP C06T C03T C03T2 NormP.
Open Scope R_scope.

Definition norm (r : qreg R) : R := sqrt (reg_absolute Rops r).

(** the invariant: shape, and the norm inside [normalize]'s own tolerance band *)
Definition Inv (r : qreg R) : Prop :=
  shaped r /\ 1 - E9 <= norm r <= 1.

Lemma E9_pos : 0 < E9.
Proof. unfold E9. apply Rinv_0_lt_compat. lra. Qed.
Lemma E15_lt_band : E15 < 1 - E9.
Proof.
  unfold E15, E9.
  assert (/ 10 ^ 15 < / 10) by (apply Rinv_lt_contravar; lra).
  assert (/ 10 ^ 9 < / 10) by (apply Rinv_lt_contravar; lra). lra.
Qed.

(** sum of squares of a basis buffer *)
Lemma sumsq_tab_basis k : forall start j,
  sumsq (tab_from k start (basis Rops j)) =
  if (N.leb start j && N.ltb j (start + N.of_nat k))%bool then 1 else 0.
Proof.
  induction k as [|k IH]; intros start j; cbn [tab_from sumsq].
  - destruct (N.leb_spec start j), (N.ltb_spec j (start + N.of_nat 0)); cbn [andb]; try reflexivity; lia.
  - rewrite IH. unfold basis at 1. unfold n2, c1, c0. cbn [fst snd f0 f1 Rops].
    destruct (N.eqb_spec start j) as [E|E].
    + subst j. destruct (N.leb_spec (N.succ start) start); [lia|]. cbn [andb].
      destruct (N.leb_spec start start); [|lia].
      destruct (N.ltb_spec start (start + N.of_nat (S k))); [|lia]. cbn [andb fst snd]. ring.
    + destruct (N.leb_spec (N.succ start) j), (N.ltb_spec j (N.succ start + N.of_nat k)),
        (N.leb_spec start j), (N.ltb_spec j (start + N.of_nat (S k))); cbn [andb fst snd]; try ring; lia.
Qed.

Lemma sumsq_one_at len j : (N.to_nat j < len)%nat -> sumsq (one_at Rops len j) = 1.
Proof.
  intro H. unfold one_at, tab. rewrite sumsq_tab_basis.
  destruct (N.leb_spec 0 j); [|lia]. destruct (N.ltb_spec j (0 + N.of_nat len)); [reflexivity|lia].
Qed.

Lemma norm_of_sumsq1 (r : qreg R) : sumsq (q_psi r) = 1 -> norm r = 1.
Proof. intro H. unfold norm, reg_absolute. rewrite norm2_buf_sumsq, H. apply sqrt_1. Qed.

Lemma Inv_of_norm1 r : shaped r -> sumsq (q_psi r) = 1 -> Inv r.
Proof. intros Hs H. split; [exact Hs|]. rewrite (norm_of_sumsq1 r H). generalize E9_pos. lra. Qed.

(** construction *)
Lemma with_state_inv n st : Inv (reg_with_state Rops n st).
Proof.
  destruct (with_state_spec Rops n st) as [Hs _]. apply Inv_of_norm1; [exact Hs|].
  unfold reg_with_state. cbn [q_psi]. apply sumsq_one_at.
  unfold mask_n. rewrite N.land_ones.
  assert (H : (st mod 2 ^ n < 2 ^ n)%N) by (apply N.mod_lt, N.pow_nonzero; discriminate).
  apply lt_qsize in H. generalize (qsize_le_blen n). lia.
Qed.

(** resizing *)
Lemma set_num_inv r k : Inv r -> Inv (reg_set_num Rops r k).
Proof.
  intros [Hs Hn]. destruct (N.le_gt_cases (q_num r) k) as [L|L].
  - destruct (set_num_grow Rops r k Hs L) as [Hs' _]. split; [exact Hs'|].
    unfold norm, reg_absolute in *. rewrite norm2_buf_sumsq in *.
    unfold reg_set_num. destruct (N.ltb_spec k (q_num r)); [lia|]. cbn [q_psi].
    unfold resize. destruct Hs as [Hl _]. rewrite firstn_all2 by (generalize (blen_mono _ _ L); lia).
    rewrite sumsq_app, sumsq_zeros, Rplus_0_r. exact Hn.
  - destruct (set_num_shrink Rops r k L) as [Hs' _]. apply Inv_of_norm1; [exact Hs'|].
    unfold reg_set_num. rewrite (proj2 (N.ltb_lt _ _) L). unfold reg_reset. cbn [q_psi].
    apply sumsq_one_at. rewrite N.land_0_r.
    unfold resize. rewrite app_length, firstn_length. unfold zeros. rewrite repeat_length.
    unfold blen, MIN_BUFFER_LEN. change (N.to_nat 0) with 0%nat. lia.
Qed.

(** measurement: the collapse can only lower the norm; [normalize] brings it back into the band *)
Lemma nth_get (v : bufR) i : nth i v (c0 Rops) = get Rops v (N.of_nat i).
Proof. unfold get. rewrite Nnat.Nat2N.id. reflexivity. Qed.

Lemma sumsq_collapse_le (v : bufR) idy mask : sumsq (collapse_buf Rops v idy mask) <= sumsq v.
Proof.
  apply sumsq_le; [apply collapse_length|]. intros i Hi.
  rewrite !nth_get, collapse_get.
  destruct (negb _); [|lra]. unfold n2 at 1, c0. cbn [fst snd f0 Rops].
  generalize (n2_nonneg (get Rops v (N.of_nat i))). lra.
Qed.

Lemma measure_inv r mask drawn :
  Inv r ->
  (N.land mask (q_mask r) <> 0%N ->
   E15 < norm (reg_collapse Rops r drawn (N.land mask (q_mask r)))) ->
  Inv (fst (reg_measure Rops E15 E9 r mask drawn)).
Proof.
  intros [Hs Hn] Hnd. unfold reg_measure.
  destruct (N.eqb_spec (N.land mask (q_mask r)) 0) as [E|E]; cbn [fst]; [split; assumption|].
  specialize (Hnd E). set (rc := reg_collapse Rops r drawn (N.land mask (q_mask r))) in *.
  assert (Hle : norm rc <= norm r).
  { unfold norm, reg_absolute. rewrite !norm2_buf_sumsq. apply sqrt_le_1_alt. apply sumsq_collapse_le. }
  destruct (normalize_spec rc Hnd) as [t [Ht [Hp [Hq [Hm [H1 H2]]]]]].
  split.
  - destruct Hs as [Hl Hmask]. split; [rewrite Hp, Hq, scale_length; unfold rc; cbn [reg_collapse q_psi q_num]; rewrite collapse_length; exact Hl|].
    rewrite Hm, Hq. exact Hmask.
  - unfold norm at 1 2. unfold reg_absolute. rewrite norm2_buf_sumsq, Hp, sumsq_scale.
    fold (norm rc) in *. unfold norm in Hnd, Hle, H1, H2. unfold reg_absolute in Hnd, Hle, H1, H2.
    rewrite norm2_buf_sumsq in Hnd, Hle, H1, H2.
    set (s := sumsq (q_psi rc)) in *.
    assert (Hs0 : 0 <= s) by apply sumsq_nonneg.
    destruct (Rle_dec (1 - sqrt s) E9) as [B|B].
    + rewrite (H1 B). replace (1 * 1 * s) with s by ring.
      unfold norm, reg_absolute in Hn. rewrite norm2_buf_sumsq in Hn. rewrite norm2_buf_sumsq in Hle. lra.
    + rewrite (H2 B).
      assert (Hpos : 0 < sqrt s) by (generalize E15_lt_band E9_pos; unfold E15 in *; lra).
      replace (/ sqrt s * / sqrt s * s) with 1.
      * rewrite sqrt_1. generalize E9_pos. lra.
      * rewrite <- (sqrt_sqrt s Hs0) at 3. field. lra.
Qed.

(** ** histories *)
Inductive act :=
| Apply (q : multi R)
| Measure (mask drawn : N)
| SetNum (k : N).

Definition step (r : qreg R) (a : act) : qreg R :=
  match a with
  | Apply q => reg_apply Rops r q
  | Measure mask drawn => fst (reg_measure Rops E15 E9 r mask drawn)
  | SetNum k => reg_set_num Rops r k
  end.

(** side conditions of one step *)
Definition admissible (r : qreg R) (a : act) : Prop :=
  match a with
  | Apply q => sumsq (multi_apply Rops q (q_psi r)) = sumsq (q_psi r)
  | Measure mask drawn =>
      N.land mask (q_mask r) <> 0%N ->
      E15 < norm (reg_collapse Rops r drawn (N.land mask (q_mask r)))
  | SetNum _ => True
  end.

Fixpoint admissible_all (r : qreg R) (acts : list act) : Prop :=
  match acts with
  | [] => True
  | a :: rest => admissible r a /\ admissible_all (step r a) rest
  end.

Lemma step_inv r a : Inv r -> admissible r a -> Inv (step r a).
Proof.
  intros HI Ha. destruct a as [q|mask drawn|k]; cbn [step admissible] in *.
  - destruct HI as [[Hl Hm] Hn]. split.
    + split; cbn [reg_apply q_psi q_num q_mask]; [rewrite multi_apply_length'; exact Hl|exact Hm].
    + unfold norm, reg_absolute in *. rewrite norm2_buf_sumsq in *. cbn [reg_apply q_psi]. rewrite Ha. exact Hn.
  - apply measure_inv; assumption.
  - apply set_num_inv. exact HI.
Qed.

Definition C05_invariant_partial_stmt : Prop :=
  forall (acts : list act) (r : qreg R),
    Inv r -> admissible_all r acts -> Inv (fold_left step acts r).

Lemma C05_invariant_partial_proof : C05_invariant_partial_stmt.
Proof.
  intro acts. induction acts as [|a acts IH]; intros r HI Ha; [exact HI|].
  destruct Ha as [H1 H2]. cbn [fold_left]. apply IH; [apply step_inv; assumption|exact H2].
Qed.

(** ** the same invariant without the unitarity hypothesis: an applied operator only has to be a
    product of good elements (which every operator built from the public constructors is:
    [C03T2.eval_good]) addressed to qubits the register has *)
Lemma blen_pow2 n : blen n = Nat.pow 2 (Nat.max (N.to_nat n) 3).
Proof.
  unfold blen, qsize, MIN_BUFFER_LEN. change 8%nat with (Nat.pow 2 3).
  destruct (Nat.le_ge_cases (N.to_nat n) 3) as [L|G].
  - rewrite (Nat.max_r _ _ L). apply Nat.max_r. apply Nat.pow_le_mono_r; [discriminate|exact L].
  - rewrite (Nat.max_l _ _ G). apply Nat.max_l. apply Nat.pow_le_mono_r; [discriminate|exact G].
Qed.

Definition inside (x M : N) : Prop := N.ldiff x M = 0%N.

Lemma inside_lor a b M : inside (N.lor a b) M <-> inside a M /\ inside b M.
Proof.
  unfold inside. split.
  - intro H. split; apply N.bits_inj; intro t; assert (X := f_equal (fun x => N.testbit x t) H); cbn beta in X;
      rewrite N.ldiff_spec, N.lor_spec, N.bits_0 in X; rewrite N.ldiff_spec, N.bits_0;
      destruct (N.testbit a t), (N.testbit b t), (N.testbit M t); try reflexivity; discriminate.
  - intros [Ha Hb]. apply N.bits_inj. intro t.
    assert (X := f_equal (fun x => N.testbit x t) Ha). assert (Y := f_equal (fun x => N.testbit x t) Hb). cbn beta in X, Y.
    rewrite N.ldiff_spec, N.bits_0 in X, Y. rewrite N.ldiff_spec, N.lor_spec, N.bits_0.
    destruct (N.testbit a t), (N.testbit b t), (N.testbit M t); try reflexivity; discriminate.
Qed.

Lemma inside_fold (q : multi R) M : forall a,
  inside (fold_left (fun a s => N.lor a (single_act_on s)) q a) M ->
  inside a M /\ Forall (fun s => inside (single_act_on s) M) q.
Proof.
  induction q as [|s q IH]; intros a H; cbn [fold_left] in H.
  - split; [exact H|constructor].
  - destruct (IH _ H) as [H1 H2]. apply inside_lor in H1. destruct H1 as [Ha Hs].
    split; [exact Ha|constructor; assumption].
Qed.

Lemma inside_ones_lt x n k : inside x (N.ones n) -> (N.to_nat n <= k)%nat -> (x < p2 k)%N.
Proof.
  intros H Hk. apply lt_p2_bits. intros t Ht.
  assert (X := f_equal (fun y => N.testbit y t) H). cbn beta in X. rewrite N.ldiff_spec, N.bits_0 in X.
  rewrite N.ones_spec_high in X by lia. cbn [negb] in X. rewrite andb_true_r in X. exact X.
Qed.

Lemma apply_keeps_sumsq (r : qreg R) (q : multi R) :
  shaped r -> Forall good_single q -> inside (multi_act_on q) (q_mask r) ->
  sumsq (multi_apply Rops q (q_psi r)) = sumsq (q_psi r).
Proof.
  intros [Hl Hm] G Hin. rewrite Hm in Hin. unfold mask_n in Hin.
  apply (multi_apply_sumsq (Nat.max (N.to_nat (q_num r)) 3) q G).
  - apply (inside_fold q _ 0%N) in Hin. destruct Hin as [_ Hin].
    eapply Forall_impl; [|exact Hin]. intros s Hs. cbv beta in Hs.
    apply (inside_ones_lt _ (q_num r)); [exact Hs|lia].
  - rewrite Hl. apply blen_pow2.
Qed.

Definition admissible_u (r : qreg R) (a : act) : Prop :=
  match a with
  | Apply q => Forall good_single q /\ inside (multi_act_on q) (q_mask r)
  | Measure mask drawn =>
      N.land mask (q_mask r) <> 0%N ->
      E15 < norm (reg_collapse Rops r drawn (N.land mask (q_mask r)))
  | SetNum _ => True
  end.

Fixpoint admissible_u_all (r : qreg R) (acts : list act) : Prop :=
  match acts with
  | [] => True
  | a :: rest => admissible_u r a /\ admissible_u_all (step r a) rest
  end.

Lemma admissible_u_adm r a : Inv r -> admissible_u r a -> admissible r a.
Proof.
  intros [Hs _]. destruct a as [q|mask drawn|k]; cbn [admissible_u admissible]; try tauto.
  intros [G Hin]. apply apply_keeps_sumsq; assumption.
Qed.

Definition C05_invariant_stmt : Prop :=
  forall (acts : list act) (r : qreg R),
    Inv r -> admissible_u_all r acts -> Inv (fold_left step acts r).

Lemma C05_invariant_proof : C05_invariant_stmt.
Proof.
  intro acts. induction acts as [|a acts IH]; intros r HI Ha; [exact HI|].
  destruct Ha as [H1 H2]. cbn [fold_left]. apply IH; [|exact H2].
  apply step_inv; [exact HI|]. apply admissible_u_adm; assumption.
Qed.

(** every operator expression over the public constructors qualifies *)
Definition C05_operators_stmt : Prop :=
  forall (e : opexpr R) (q : multi R) (r : qreg R),
    word_masks e -> eval Rops e = ROk q -> inside (multi_act_on q) (q_mask r) ->
    admissible_u r (Apply q).

Lemma C05_operators_proof : C05_operators_stmt.
Proof. intros e q r W H Hin. split; [apply (eval_good e W q H)|exact Hin]. Qed.

(** every constructor yields a state satisfying the invariant, with norm exactly 1 *)
Definition C05_construct_stmt : Prop :=
  forall n st, Inv (reg_with_state Rops n st) /\ norm (reg_with_state Rops n st) = 1.

Lemma C05_construct_proof : C05_construct_stmt.
Proof.
  intros n st. split; [apply with_state_inv|].
  apply norm_of_sumsq1. unfold reg_with_state. cbn [q_psi]. apply sumsq_one_at.
  unfold mask_n. rewrite N.land_ones.
  assert (H : (st mod 2 ^ n < 2 ^ n)%N) by (apply N.mod_lt, N.pow_nonzero; discriminate).
  apply lt_qsize in H. generalize (qsize_le_blen n). lia.
Qed.

(** under the invariant the reported probabilities are non-negative, and the norm cannot decay:
    after any number of measurements it is still at least 1 - 1e-9 *)
Definition C05_probabilities_stmt : Prop :=
  forall r, Inv r ->
    Forall (fun p => 0 <= p) (reg_probabilities Rops r) /\
    length (reg_probabilities Rops r) = qsize (q_num r) /\
    1 - E9 <= norm r.

Lemma C05_probabilities_proof : C05_probabilities_stmt.
Proof.
  intros r [Hs Hn]. repeat split; [|apply probabilities_length; exact Hs|lra].
  unfold reg_probabilities. apply Forall_forall. intros p Hp. apply in_map_iff in Hp.
  destruct Hp as [z [<- _]]. cbn [fmul fdiv f1 Rops]. rewrite cnorm2_n2.
  assert (0 < reg_absolute Rops r).
  { unfold norm in Hn. destruct (Rle_lt_dec (reg_absolute Rops r) 0) as [L|L]; [|exact L].
    rewrite sqrt_neg_0 in Hn by exact L. generalize E9_pos. unfold E9 in *.
    assert (/ 10 ^ 9 < 1) by (rewrite <- Rinv_1; apply Rinv_lt_contravar; lra). lra. }
  apply Rmult_le_pos; [apply n2_nonneg|]. unfold Rdiv. rewrite Rmult_1_l. left. apply Rinv_0_lt_compat. assumption.
Qed.
