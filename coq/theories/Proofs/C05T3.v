(** * C05T3: every accepted program keeps the register valid.
    Every operator the interpreter puts into its block queue is a product of good elements
    addressed to declared qubits (the gate builder, macro expansion to any depth, controls), so a
    run of the simulator -- blocks, measurements with any outcomes, conditionals, resets -- is a
    history of the kind C05T2 covers. *)
From Coq Require Import Reals Lra Lia String.
From QV Require Import Interp Sym Spec Reg Expr ScalarR BitsP BitsIterP VecP OpP LocalP WfP C14T RegP C03T C03T2 NormP ApplyP C05T C05T2 C09T C09T3 C10T SupportP.
Open Scope N_scope.
Open Scope list_scope.
Local Notation good_multi := (Forall good_single).

Ltac nu2' := let a := fresh in let b := fresh in let u := fresh in intros a b u; discriminate.

(** ** words *)
Definition word (x : N) : Prop := x < 2 ^ 64.

Lemma word_bits x : (forall t, N.testbit x t = true -> t < 64) -> word x.
Proof.
  intro H. unfold word. change (2 ^ 64) with (p2 64). apply lt_p2_bits. intros k Hk.
  destruct (N.testbit x k) eqn:E; [|reflexivity]. apply H in E. change (N.of_nat 64) with 64 in Hk. lia.
Qed.

Lemma bits_word x t : word x -> N.testbit x t = true -> t < 64.
Proof.
  intros Hx Ht. destruct (N.lt_ge_cases t 64) as [L|G]; [exact L|].
  rewrite (testbit_lt_pow2 x t 64 Hx G) in Ht. discriminate.
Qed.

Lemma word_lor a b : word a -> word b -> word (N.lor a b).
Proof.
  intros Ha Hb. apply word_bits. intros t Ht. rewrite N.lor_spec in Ht. apply Bool.orb_true_iff in Ht.
  destruct Ht as [Ht|Ht]; [exact (bits_word a t Ha Ht)|exact (bits_word b t Hb Ht)].
Qed.

Lemma word_lor_all regs : Forall word regs -> forall a, word a -> word (fold_left N.lor regs a).
Proof.
  induction 1 as [|r regs Hr _ IH]; intros a Ha; cbn [fold_left]; [exact Ha|]. apply IH. apply word_lor; assumption.
Qed.

Lemma word_0 : word 0.
Proof. unfold word. reflexivity. Qed.

(** ** every operator of the gate builder is a product of good elements *)
Lemma gate_any_good name mk regs args q :
  Forall word regs ->
  (forall r q, word r -> mk r = IOk q -> good_multi q) -> @gate_any R name mk regs args = IOk q -> good_multi q.
Proof.
  intros Hr Hmk. unfold gate_any. destruct (N.eqb _ 0); [discriminate|]. destruct (negb _); [discriminate|].
  apply Hmk. apply word_lor_all; [exact Hr|apply word_0].
Qed.
Lemma gate_2_good name mk regs args q :
  (forall r q, mk r = IOk q -> good_multi q) -> @gate_2 R name mk regs args = IOk q -> good_multi q.
Proof.
  intros Hmk. unfold gate_2. destruct (negb _); [discriminate|]. destruct (negb _); [discriminate|]. apply Hmk.
Qed.
Lemma gate_r_good name k mk regs (args : list R) q :
  (forall a r q, mk a r = IOk q -> good_multi q) -> gate_r name k mk regs args = IOk q -> good_multi q.
Proof.
  intros Hmk. unfold gate_r. destruct (negb _); [discriminate|].
  destruct args as [|a [|b t]]; try discriminate. apply Hmk.
Qed.

Lemma gate_table_good name regs args q :
  Forall word regs -> gate_table Rops name regs args = IOk q -> good_multi q.
Proof.
  intro Hr. unfold gate_table.
  repeat match goal with
         | |- (if is_name name ?a ?b then _ else _) = _ -> _ => destruct (is_name name a b)
         end; try discriminate.
  - apply gate_any_good; [exact Hr|]. intros r q0 Hw H. injection H as <-. apply good_one; [constructor|nu2'].
  - apply gate_any_good; [exact Hr|]. intros r q0 Hw H. injection H as <-. apply good_one; [constructor|nu2'].
  - apply gate_any_good; [exact Hr|]. intros r q0 Hw H. injection H as <-. apply good_one; [constructor|nu2'].
  - apply gate_any_good; [exact Hr|]. intros r q0 Hw H. injection H as <-. apply good_one; [constructor; exact Hw|nu2'].
  - apply gate_any_good; [exact Hr|]. intros r q0 Hw H. injection H as <-. apply good_multi_dgr, good_one; [constructor; exact Hw|nu2'].
  - apply gate_any_good; [exact Hr|]. intros r q0 Hw H. injection H as <-. apply good_one; [constructor; exact Hw|nu2'].
  - apply gate_any_good; [exact Hr|]. intros r q0 Hw H. injection H as <-. apply good_multi_dgr, good_one; [constructor; exact Hw|nu2'].
  - apply gate_any_good; [exact Hr|]. intros r q0 Hw H. apply of_op_ok in H. exact (good_op_h r q0 Hw H).
  - apply gate_any_good; [exact Hr|]. intros r q0 Hw H. apply of_op_ok in H. exact (good_op_qft r q0 Hw H).
  - apply gate_r_good. intros a r q0 H. apply of_op_ok in H. exact (good_rx _ _ _ H).
  - apply gate_r_good. intros a r q0 H. apply of_op_ok in H. exact (good_ry _ _ _ H).
  - apply gate_r_good. intros a r q0 H. apply of_op_ok in H. exact (good_rz _ _ _ H).
  - apply gate_r_good. intros a r q0 H. apply of_op_ok in H. exact (good_rxx _ _ _ H).
  - apply gate_r_good. intros a r q0 H. apply of_op_ok in H. exact (good_ryy _ _ _ H).
  - apply gate_r_good. intros a r q0 H. apply of_op_ok in H. exact (good_rzz _ _ _ H).
  - apply gate_2_good. intros r q0 H. apply of_op_ok in H. exact (good_swap _ _ H).
  - apply gate_2_good. intros r q0 H. apply of_op_ok in H. exact (good_sqrt_swap _ _ H).
  - apply gate_2_good. intros r q0 H. apply of_op_ok in H. exact (good_i_swap _ _ H).
  - apply gate_2_good. intros r q0 H. apply of_op_ok in H. exact (good_sqrt_i_swap _ _ H).
  - apply gate_r_good. intros a r q0 H. apply of_op_ok in H. exact (good_rz _ _ _ H).
  - unfold gate_u2. destruct (negb _); [discriminate|]. destruct args as [|a [|b [|c t]]]; try discriminate.
    intro H. apply of_op_ok in H. exact (good_u2 _ _ _ _ H).
  - unfold gate_u3. destruct (negb _); [discriminate|]. destruct args as [|a [|b [|c [|d t]]]]; try discriminate.
    intro H. apply of_op_ok in H. exact (good_u3 _ _ _ _ _ H).
Qed.

Lemma gpf_good fuel : forall name regs args q,
  Forall word regs -> gates_process_from Rops fuel name regs args = IOk q -> good_multi q.
Proof.
  induction fuel as [|fuel IH]; intros name regs args q Hr H; [discriminate|].
  rewrite gpf_step in H. destruct (starts_with_c name); [|exact (gate_table_good _ _ _ _ Hr H)].
  destruct regs as [|ctrl rest]; [discriminate|]. cbv zeta in H.
  inversion Hr as [|x xs Hc Hrest]; subst.
  match type of H with match ?inner with _ => _ end = _ => destruct inner as [o|e|w] eqn:Ei end.
  - destruct (multi_c o ctrl) as [o'|] eqn:Ec; [|discriminate]. injection H as <-.
    apply (good_c o ctrl o'); [|exact Ec].
    destruct (is_name (Interp.tail name) "u1" "U1").
    + revert Ei. apply gate_r_good. intros a r q0 Hq. apply of_op_ok in Hq. exact (good_phase_shift _ _ _ Hq).
    + exact (IH _ _ _ _ Hrest Ei).
  - destruct e; discriminate.
  - discriminate.
Qed.

Lemma gates_process_good name regs args q :
  Forall word regs -> gates_process Rops name regs args = IOk q -> good_multi q.
Proof. intro Hr. unfold gates_process. destruct (negb _); [discriminate|]. apply gpf_good. exact Hr. Qed.

(** ** "good and addressed inside M" *)
Definition okq (M : N) (q : multi R) : Prop := good_multi q /\ sup M q.
Definition okr (M : N) (r : N) : Prop := word r /\ inside r M.

Lemma okq_nil M : okq M [].
Proof. split; constructor. Qed.
Lemma okq_app M p q : okq M p -> okq M q -> okq M (p ++ q).
Proof. intros [A B] [C D]. split; [apply good_app|apply sup_app]; assumption. Qed.
Lemma okq_mono M M' q : inside M M' -> okq M q -> okq M' q.
Proof. intros H [A B]. split; [exact A|eapply sup_mono; eassumption]. Qed.

Lemma okr_split M regs : Forall (okr M) regs -> Forall word regs /\ Forall (fun r => inside r M) regs.
Proof. intro H. split; eapply Forall_impl; try exact H; intros r [A B]; assumption. Qed.

Lemma gates_process_okq M name regs args q :
  Forall (okr M) regs -> gates_process Rops name regs args = IOk q -> okq M q.
Proof.
  intros Hr H. destruct (okr_split M regs Hr) as [Hw Hi]. split.
  - exact (gates_process_good _ _ _ _ Hw H).
  - exact (gates_process_sup M _ _ _ _ Hi H).
Qed.

(** ** macro expansion: every actual is one of the caller's arguments *)
Lemma lookup_in {A} k (l : list (ident * A)) v : lookup k l = Some v -> In (k, v) l \/ exists k', In (k', v) l.
Proof.
  unfold lookup. destruct (find (fun p => String.eqb (fst p) k) l) as [[k' v']|] eqn:E; [|discriminate]. intro H. injection H as <-.
  right. exists k'. apply find_some in E. exact (proj1 E).
Qed.

Lemma in_combine_snd {A B} (l1 : list A) (l2 : list B) a b : In (a, b) (combine l1 l2) -> In b l2.
Proof. apply in_combine_r. Qed.

Lemma imap_forall {A B} (f : A -> ires B) (P : B -> Prop) l vs :
  (forall a v, f a = IOk v -> P v) -> imap f l = IOk vs -> Forall P vs.
Proof.
  intro Hf. revert vs. induction l as [|a l IH]; intros vs H; cbn [imap] in H.
  - injection H as <-. constructor.
  - destruct (f a) as [v|e|w] eqn:Ea; cbn [ibind] in H; try discriminate.
    destruct (imap f l) as [vs'|e|w]; cbn [ibind] in H; try discriminate.
    injection H as <-. constructor; [exact (Hf a v Ea)|apply IH; reflexivity].
Qed.

Lemma macro_process_okq M :
  forall fuel macros depth m name regs args o,
    Forall (okr M) regs ->
    macro_process Rops fuel macros depth m name regs args = IOk o -> okq M o.
Proof.
  induction fuel as [|fuel IH]; intros macros depth m name regs args o Hr H; [discriminate|].
  cbn [macro_process] in H.
  destruct (Nat.leb (length macros) depth); [discriminate|].
  destruct (negb (Nat.eqb (length regs) (length (m_regs m)))); [discriminate|].
  destruct (negb (Nat.eqb (length args) (length (m_params m)))); [discriminate|].
  assert (G : forall body acc o',
            okq M acc ->
            (fix go (body : list (ident * list arg * list (@pexpr R))) (acc : multi R) {struct body} : ires (multi R) :=
               match body with
               | [] => IOk acc
               | (name_i, regs_i, args_i) :: rest =>
                   ibind (imap (fun a => match lookup (arg_name a) (rev (combine (m_regs m) regs)) with
                                         | Some v => IOk v | None => IPanic 1 end) regs_i)
                     (fun regs_v =>
                        ibind (imap (fun e => match peval Rops (rev (combine (m_params m) args)) e with
                                              | PVal x => IOk x
                                              | PErr pe => IErr (UnevaluatedArgument name_i pe)
                                              end) args_i)
                          (fun args_v =>
                             ibind
                               match lookup name_i macros with
                               | Some m' =>
                                   if String.eqb name name_i then IErr (RecursiveMacro name_i)
                                   else macro_process Rops fuel macros (S depth) m' name_i regs_v args_v
                               | None => gates_process Rops name_i regs_v args_v
                               end (fun o0 => go rest (acc ++ o0))))
               end) body acc = IOk o' -> okq M o').
  { induction body as [|[[name_i regs_i] args_i] rest IHb]; intros acc o' Hacc Hgo.
    - injection Hgo as <-. exact Hacc.
    - match type of Hgo with ibind ?r _ = _ => destruct r as [regs_v|e|w] eqn:Er end; cbn [ibind] in Hgo; try discriminate.
      match type of Hgo with ibind ?r _ = _ => destruct r as [args_v|e|w] eqn:Ea' end; cbn [ibind] in Hgo; try discriminate.
      match type of Hgo with ibind ?r _ = _ => destruct r as [o0|e|w] eqn:Eo end; cbn [ibind] in Hgo; try discriminate.
      assert (Hv : Forall (okr M) regs_v).
      { eapply imap_forall; [|exact Er]. intros a v Hv. cbv beta in Hv.
        destruct (lookup (arg_name a) (rev (combine (m_regs m) regs))) as [v'|] eqn:L; [|discriminate].
        injection Hv as <-. rewrite Forall_forall in Hr. apply Hr.
        destruct (lookup_in _ _ _ L) as [Hin|[k' Hin]]; apply in_rev in Hin; eapply in_combine_snd; exact Hin. }
      apply (IHb (acc ++ o0) o'); [|exact Hgo]. apply okq_app; [exact Hacc|].
      destruct (lookup name_i macros) as [m'|].
      + destruct (String.eqb name name_i); [discriminate|]. exact (IH _ _ _ _ _ _ _ Hv Eo).
      + exact (gates_process_okq M _ _ _ _ Hv Eo). }
  exact (G _ _ _ (okq_nil M) H).
Qed.

(** ** resolved arguments are words inside the declared qubits *)
Lemma mask_of_alias_from_bits (l : list ident) alias : forall s t,
  N.testbit (mask_of_alias_from l alias s) t = true -> t < 64 /\ t < s + N.of_nat (length l).
Proof.
  induction l as [|x l IH]; intros s t H; cbn [mask_of_alias_from length] in *.
  - rewrite N.bits_0 in H. discriminate.
  - rewrite N.lor_spec in H. apply Bool.orb_true_iff in H. destruct H as [H|H].
    + destruct (String.eqb x alias); [|rewrite N.bits_0 in H; discriminate].
      assert (Hm : s mod 64 < 64) by (apply N.mod_lt; discriminate).
      assert (E : wrap (N.shiftl 1 (s mod 64)) = 2 ^ (s mod 64)).
      { rewrite <- (wrap_shiftl1 (s mod 64) Hm). rewrite N.mod_mod by discriminate. reflexivity. }
      rewrite E, pow2_bits in H. apply N.eqb_eq in H. subst t.
      assert (s mod 64 <= s) by (apply N.mod_le; discriminate). lia.
    + destruct (IH _ _ H) as [A B]. lia.
Qed.

Lemma inside_ones_bits x n : (forall t, N.testbit x t = true -> t < n) -> inside x (N.ones n).
Proof.
  intro H. unfold inside. apply N.bits_inj. intro t. rewrite N.ldiff_spec, N.bits_0.
  destruct (N.testbit x t) eqn:E; [|reflexivity]. apply H in E. rewrite N.ones_spec_low by exact E. reflexivity.
Qed.

Lemma mask_of_alias_okr regs alias : okr (N.ones (lenN regs)) (mask_of_alias regs alias).
Proof.
  split.
  - apply word_bits. intros t Ht. exact (proj1 (mask_of_alias_from_bits regs alias 0 t Ht)).
  - apply inside_ones_bits. intros t Ht. exact (proj2 (mask_of_alias_from_bits regs alias 0 t Ht)).
Qed.

Lemma resolve_okr regs a missing v : resolve regs a missing = IOk v -> okr (N.ones (lenN regs)) v.
Proof.
  destruct a as [alias idx|alias]; cbn [resolve].
  - destruct (N.eqb _ 0); [discriminate|]. rewrite nth_bit_spec. cbn [ibind].
    destruct (nth_error (scan64 (mask_of_alias regs alias)) (N.to_nat (size_as_N idx))) as [b|] eqn:E; [|discriminate].
    intro H. injection H as <-. apply nth_error_In in E. apply scan64_in in E. destruct E as [j [-> [Hj Hb]]].
    destruct (mask_of_alias_okr regs alias) as [_ Hin]. split.
    + unfold word. apply N.pow_lt_mono_r; [reflexivity|exact Hj].
    + eapply inside_trans; [apply inside_pow2; exact Hb|exact Hin].
  - destruct (N.eqb _ 0); [discriminate|]. intro H. injection H as <-. apply mask_of_alias_okr.
Qed.

(** ** the block queue *)
Definition ext_ok (M : N) (o : @extop R) : Prop :=
  Forall (fun b => okq M (fst b)) (blocks o) /\ okq M (open o).

Lemma ext_ok_mono M M' o : inside M M' -> ext_ok M o -> ext_ok M' o.
Proof.
  intros H [A B]. split; [|eapply okq_mono; eassumption].
  eapply Forall_impl; [|exact A]. intros b Hb. eapply okq_mono; eassumption.
Qed.

Lemma ext_ok_push M o g : ext_ok M o -> okq M g -> ext_ok M (ext_push o g).
Proof. intros [A B] G. split; [exact A|]. cbn [ext_push open]. apply okq_app; assumption. Qed.

Lemma ext_ok_branch_id M o s : ext_ok M o -> ext_ok M (ext_branch_with_id o s).
Proof.
  intros [A B]. split; cbn [ext_branch_with_id blocks open]; [|apply okq_nil].
  apply Forall_app. split; [exact A|]. constructor; [exact B|constructor].
Qed.

Lemma ext_ok_branch M o s : ext_ok M o -> ext_ok M (ext_branch o s).
Proof.
  intros [A B]. unfold ext_branch. destruct (open o) as [|g0 g] eqn:E; [split; [exact A|rewrite E; exact B]|].
  split; cbn [blocks open]; [|apply okq_nil]. apply Forall_app. split; [exact A|]. constructor; [exact B|constructor].
Qed.

Lemma inside_ones_le a b : a <= b -> inside (N.ones a) (N.ones b).
Proof.
  intro H. apply inside_ones_bits. intros t Ht.
  destruct (N.lt_ge_cases t a) as [L|G]; [lia|]. rewrite N.ones_spec_high in Ht by exact G. discriminate.
Qed.

Definition Mof (base ch : @int R) : N := N.ones (lenN (i_qreg base ++ i_qreg ch)).

Lemma process_apply_ok base ch name regs args ch' :
  ext_ok (Mof base ch) (i_ops ch) -> process_apply Rops base ch name regs args = IOk ch' ->
  ext_ok (Mof base ch') (i_ops ch') /\ i_qreg ch' = i_qreg ch.
Proof.
  intros Hok H. unfold process_apply in H.
  destruct (imap (get_q_idx base ch) regs) as [regs_v|e|w] eqn:Er; cbn [ibind] in H; try discriminate.
  match type of H with ibind ?r _ = _ => destruct r as [args_v|e|w] eqn:Ea end; cbn [ibind] in H; try discriminate.
  match type of H with ibind ?r _ = _ => destruct r as [o|e|w] eqn:Eo end; cbn [ibind] in H; try discriminate.
  injection H as <-. cbn [set_ops i_ops i_qreg]. split; [|reflexivity].
  unfold Mof. cbn [i_qreg]. apply ext_ok_push; [exact Hok|].
  assert (Hv : Forall (okr (Mof base ch)) regs_v).
  { eapply imap_forall; [|exact Er]. intros a v Hv. unfold get_q_idx in Hv. exact (resolve_okr _ _ _ _ Hv). }
  destruct (lookup name (rev (i_macros base ++ i_macros ch))) as [m|].
  - exact (macro_process_okq _ _ _ _ _ _ _ _ _ Hv Eo).
  - exact (gates_process_okq _ _ _ _ _ Hv Eo).
Qed.

Lemma lenN_app {A} (l1 l2 : list A) : lenN (l1 ++ l2) = lenN l1 + lenN l2.
Proof. unfold lenN. rewrite app_length. lia. Qed.

Lemma process_node1_ok base ch n ch' :
  ext_ok (Mof base ch) (i_ops ch) -> process_node1 Rops base ch n = IOk ch' -> ext_ok (Mof base ch') (i_ops ch').
Proof.
  intros Hok H. destruct n; cbn [process_node1] in H.
  - unfold process_qreg in H. repeat (match type of H with ibind ?r _ = _ => destruct r; cbn [ibind] in H; try discriminate end).
    injection H as <-. cbn [i_ops]. eapply ext_ok_mono; [|exact Hok]. unfold Mof. cbn [i_qreg].
    apply inside_ones_le. rewrite !lenN_app. lia.
  - unfold process_creg in H. repeat (match type of H with ibind ?r _ = _ => destruct r; cbn [ibind] in H; try discriminate end).
    injection H as <-. exact Hok.
  - injection H as <-. exact Hok.
  - destruct (get_q_idx base ch a); cbn [ibind] in H; try discriminate. injection H as <-.
    cbn [set_ops i_ops]. unfold Mof. cbn [i_qreg]. apply ext_ok_branch_id. exact Hok.
  - destruct (get_q_idx base ch q); cbn [ibind] in H; try discriminate.
    destruct (get_c_idx base ch c); cbn [ibind] in H; try discriminate.
    destruct (negb _); [discriminate|]. injection H as <-.
    cbn [set_ops i_ops]. unfold Mof. cbn [i_qreg]. apply ext_ok_branch_id. exact Hok.
  - exact (proj1 (process_apply_ok _ _ _ _ _ _ Hok H)).
  - injection H as <-. exact Hok.
  - unfold process_gate in H.
    destruct (macro_new Rops regs params body); cbn [ibind] in H; try discriminate.
    destruct (has_macro name base || has_macro name ch)%bool; [discriminate|].
    destruct (check_ident name); cbn [ibind] in H; try discriminate.
    injection H as <-. exact Hok.
  - destruct n; try discriminate.
    match type of H with ibind ?r _ = _ => destruct r; cbn [ibind] in H; try discriminate end.
    match type of H with ibind ?r _ = _ => destruct r as [c2| |] eqn:E2; cbn [ibind] in H; try discriminate end.
    injection H as <-.
    assert (Hok1 : ext_ok (Mof base (set_ops ch (ext_branch (i_ops ch) SNop))) (i_ops (set_ops ch (ext_branch (i_ops ch) SNop)))).
    { cbn [set_ops i_ops]. unfold Mof. cbn [i_qreg]. apply ext_ok_branch. exact Hok. }
    destruct (process_apply_ok _ _ _ _ _ _ Hok1 E2) as [Hok2 _].
    cbn [set_ops i_ops]. unfold Mof in *. cbn [i_qreg] in *. apply ext_ok_branch. exact Hok2.
Qed.

Lemma process_nodes_ok base nodes : forall ch ch',
  ext_ok (Mof base ch) (i_ops ch) -> process_nodes Rops base ch nodes = IOk ch' -> ext_ok (Mof base ch') (i_ops ch').
Proof.
  induction nodes as [|n nodes IH]; intros ch ch' Hok H; cbn [process_nodes] in H.
  - injection H as <-. exact Hok.
  - destruct (process_node1 Rops base ch n) as [c1| |] eqn:E1; cbn [ibind] in H; try discriminate.
    exact (IH c1 ch' (process_node1_ok _ _ _ _ Hok E1) H).
Qed.

Lemma int_new_ok ast i : int_new Rops ast = IOk i -> ext_ok (N.ones (lenN (i_qreg i))) (i_ops i).
Proof.
  unfold int_new, add_ast, ast_changes.
  destruct (process_nodes Rops int_empty int_empty ast) as [ch| |] eqn:E; cbn [ibind]; try discriminate.
  intro H. injection H as <-. cbn [push_ast i_qreg i_ops].
  assert (H0 : ext_ok (Mof int_empty int_empty) (i_ops (@int_empty R))) by (split; [constructor|apply okq_nil]).
  exact (process_nodes_ok _ _ _ _ H0 E).
Qed.

(** ** the run *)
Open Scope R_scope.

Lemma okq_adm M (r : qreg R) q : q_mask r = M -> okq M q -> admissible_g r (Apply q).
Proof. intros <- [G S]. split; [exact G|]. apply sup_act_on. exact S. Qed.

Lemma measure_mask_keep (r : qreg R) mask drawn : q_mask (fst (reg_measure Rops E15 E9 r mask drawn)) = q_mask r.
Proof.
  unfold reg_measure. destruct (N.eqb _ 0); cbn [fst]; [reflexivity|].
  unfold reg_normalize. destruct (fleb Rops _ E15); [reflexivity|]. destruct (fleb Rops _ E9); reflexivity.
Qed.

Lemma wrap_bits x t : N.testbit (wrap x) t = true -> N.testbit x t = true.
Proof.
  rewrite wrap_mod. intro H. destruct (N.lt_ge_cases t 64) as [L|G].
  - rewrite N.mod_pow2_bits_low in H by exact L. exact H.
  - rewrite N.mod_pow2_bits_high in H by exact G. discriminate.
Qed.

Lemma measure_result_okr (r : qreg R) mask drawn :
  okr (q_mask r) (creg_get (snd (reg_measure Rops E15 E9 r mask drawn))).
Proof.
  unfold reg_measure. destruct (N.eqb _ 0); cbn [snd].
  - unfold creg_new, creg_with_state, creg_get. cbn [c_value]. change (wrap 0) with 0%N. rewrite N.land_0_l.
    split; [apply word_0|apply inside_0].
  - unfold creg_with_state, creg_get. cbn [c_value].
    assert (B : forall t, N.testbit (N.land (wrap (N.land drawn (N.land mask (q_mask r)))) (mask_of_num (q_num r))) t = true ->
                          N.testbit (wrap (N.land drawn (N.land mask (q_mask r)))) t = true).
    { intros t Ht. rewrite N.land_spec in Ht. apply andb_prop in Ht. exact (proj1 Ht). }
    split.
    + apply word_bits. intros t Ht. apply B in Ht.
      apply (bits_word (wrap (N.land drawn (N.land mask (q_mask r)))) t); [|exact Ht].
      unfold word. rewrite wrap_mod. apply N.mod_lt. discriminate.
    + unfold inside. apply N.bits_inj. intro t. rewrite N.ldiff_spec, N.bits_0.
      destruct (N.testbit (N.land (wrap (N.land drawn (N.land mask (q_mask r)))) (mask_of_num (q_num r))) t) eqn:E; [|reflexivity].
      apply B, wrap_bits in E. rewrite !N.land_spec in E. apply andb_prop in E. destruct E as [_ E].
      apply andb_prop in E. destruct E as [_ E]. rewrite E. reflexivity.
Qed.

Lemma okq_x M v : okr M v -> okq M (@op_x R v).
Proof.
  intros [_ Hin]. split.
  - apply good_one; [constructor|nu2'].
  - apply sup_single_of. exact Hin.
Qed.

Lemma measure_num_keep (r : qreg R) mask drawn : q_num (fst (reg_measure Rops E15 E9 r mask drawn)) = q_num r.
Proof.
  unfold reg_measure. destruct (N.eqb _ 0); cbn [fst]; [reflexivity|].
  unfold reg_normalize. destruct (fleb Rops _ E15); [reflexivity|]. destruct (fleb Rops _ E9); reflexivity.
Qed.

Lemma run_blocks_inv k M : (1 <= k)%nat -> forall bl xor r c draws r' c' rest,
  InvK k r -> q_mask r = M -> Forall (fun b => okq M (fst b)) bl ->
  run_blocks Rops E15 E9 xor r c bl draws = Some (r', c', rest) ->
  InvK k r' /\ q_mask r' = M /\ q_num r' = q_num r.
Proof.
  intro Hk. induction bl as [|[o s] bl IH]; intros xor r c draws r' c' rest HI HM Hall H.
  - cbn [run_blocks] in H. injection H as <- _ _. split; [exact HI|split; [exact HM|reflexivity]].
  - inversion Hall as [|x xs Ho Hrest]; subst. cbn [fst] in Ho.
    assert (HI1 : InvK k (apply_block Rops r o)) by (apply (stepK k r (Apply o) Hk HI); apply (okq_adm (q_mask r)); [reflexivity|exact Ho]).
    assert (HM1 : q_mask (apply_block Rops r o) = q_mask r) by reflexivity.
    assert (HN1 : q_num (apply_block Rops r o) = q_num r) by reflexivity.
    cbn [run_blocks] in H. destruct s as [|qm cm|cmask v|qm].
    + destruct (IH _ _ _ _ _ _ _ HI1 HM1 Hrest H) as [A [B C]]. split; [exact A|split; [exact B|congruence]].
    + destruct (take_draw (apply_block Rops r o) qm draws) as [d draws'].
      destruct (reg_measure Rops E15 E9 (apply_block Rops r o) qm d) as [r2 res] eqn:Em.
      destruct (bits_iter_list qm); [|discriminate]. destruct (bits_iter_list cm); [|discriminate].
      assert (E2 : r2 = fst (reg_measure Rops E15 E9 (apply_block Rops r o) qm d)) by (rewrite Em; reflexivity).
      assert (HI2 : InvK k r2) by (subst r2; exact (stepK k _ (Measure qm d) Hk HI1 I)).
      assert (HM2 : q_mask r2 = q_mask r) by (subst r2; rewrite measure_mask_keep; exact HM1).
      assert (HN2 : q_num r2 = q_num r) by (subst r2; rewrite measure_num_keep; exact HN1).
      destruct (IH _ _ _ _ _ _ _ HI2 HM2 Hrest H) as [A [B C]]. split; [exact A|split; [exact B|congruence]].
    + destruct (creg_get_by_mask c cmask); [|discriminate].
      destruct (N.eqb _ v).
      * destruct (IH _ _ _ _ _ _ _ HI1 HM1 Hrest H) as [A [B C]]. split; [exact A|split; [exact B|congruence]].
      * exact (IH _ _ _ _ _ _ _ HI eq_refl Hrest H).
    + destruct (take_draw (apply_block Rops r o) qm draws) as [d draws'].
      destruct (reg_measure Rops E15 E9 (apply_block Rops r o) qm d) as [r2 res] eqn:Em.
      assert (E2 : r2 = fst (reg_measure Rops E15 E9 (apply_block Rops r o) qm d)) by (rewrite Em; reflexivity).
      assert (E3 : res = snd (reg_measure Rops E15 E9 (apply_block Rops r o) qm d)) by (rewrite Em; reflexivity).
      assert (HI2 : InvK k r2) by (subst r2; exact (stepK k _ (Measure qm d) Hk HI1 I)).
      assert (HM2 : q_mask r2 = q_mask r) by (subst r2; rewrite measure_mask_keep; exact HM1).
      assert (HN2 : q_num r2 = q_num r) by (subst r2; rewrite measure_num_keep; exact HN1).
      assert (HI3 : InvK k (apply_block Rops r2 (op_x (creg_get res)))).
      { apply (stepK k r2 (Apply (op_x (creg_get res))) Hk HI2). apply (okq_adm (q_mask r2)); [reflexivity|].
        apply okq_x. rewrite HM2, <- HM1, E3. apply measure_result_okr. }
      destruct (IH _ _ _ _ _ _ _ HI3 HM2 Hrest H) as [A [B C]]. split; [exact A|split; [exact B|]].
      rewrite C. exact HN2.
Qed.

(** every accepted program, every sequence of measurement outcomes: the simulator's register is
    a valid state afterwards *)
Definition C05_program_stmt : Prop :=
  forall (ast : list (@node R)) (i : @int R) (draws : list N) (s' : @sym R),
    int_new Rops ast = IOk i ->
    sym_finish Rops E15 E9 (sym_new Rops i) draws = Some s' ->
    let r := s_q s' in
    shaped r /\ q_num r = lenN (i_qreg i) /\
    (forall j, (2 ^ q_num r <= j)%N -> get Rops (q_psi r) j = c0 Rops) /\
    1 - E9 <= norm r <= 1.

Lemma C05_program_proof : C05_program_stmt.
Proof.
  intros ast i draws s' Hi Hf r.
  destruct (int_new_ok ast i Hi) as [Hb Ho].
  unfold sym_finish in Hf. cbn [sym_new s_xor s_q s_c s_ops] in Hf.
  destruct (run_blocks Rops E15 E9 (i_xor i) (reg_new Rops (lenN (i_qreg i))) (creg_new (lenN (i_creg i))) (blocks (i_ops i)) draws)
    as [[[r1 c1] rest]|] eqn:Er; [|discriminate].
  injection Hf as <-. cbn [s_q] in r.
  assert (H0 : InvK 1 (reg_new Rops (lenN (i_qreg i)))) by (apply InvK_of_Inv; [apply with_state_inv|apply padz_with_state]).
  destruct (run_blocks_inv 1 (N.ones (lenN (i_qreg i))) (le_n 1) _ _ _ _ _ _ _ _ H0 eq_refl Hb Er) as [HI1 [HM1 HN1]].
  assert (HI : InvK 1 r).
  { apply (stepK 1 r1 (Apply (open (i_ops i))) (le_n 1) HI1). apply (okq_adm (N.ones (lenN (i_qreg i)))); assumption. }
  destruct HI as [Hs [Hp Hn]]. split; [exact Hs|]. split; [|split].
  - unfold r. cbn [apply_block reg_apply q_num]. exact HN1.
  - intros j Hj. apply Hp. rewrite p2_to_nat. exact Hj.
  - cbn [pow] in Hn. rewrite Rmult_1_r in Hn. exact Hn.
Qed.

(** ** sessions: every interpreter reachable through the incremental interfaces *)
Open Scope N_scope.

Lemma ext_ok_append M (a b : @extop R) : ext_ok M a -> ext_ok M b -> ext_ok M (ext_append a b).
Proof.
  intros [A1 A2] [B1 B2]. split; cbn [ext_append blocks open]; [|exact B2].
  apply Forall_app. split; [|exact B1].
  destruct (open a) as [|g0 g] eqn:E; [exact A1|].
  destruct (rev (blocks a)) as [|[last s] before] eqn:Er.
  - apply Forall_app. split; [exact A1|]. constructor; [exact A2|constructor].
  - assert (Hr : Forall (fun b0 => okq M (fst b0)) (rev (blocks a))) by (apply Forall_rev; exact A1).
    rewrite Er in Hr. inversion Hr as [|x xs Hlast Hbefore]; subst. cbn [fst] in Hlast.
    destruct s.
    + apply Forall_app. split; [apply Forall_rev; exact Hbefore|]. constructor; [|constructor]. cbn [fst].
      apply okq_app; assumption.
    + apply Forall_app. split; [exact A1|]. constructor; [exact A2|constructor].
    + apply Forall_app. split; [exact A1|]. constructor; [exact A2|constructor].
    + apply Forall_app. split; [exact A1|]. constructor; [exact A2|constructor].
Qed.

Definition session_ok (i : @int R) : Prop := ext_ok (N.ones (lenN (i_qreg i))) (i_ops i).
(** a set of pending changes computed against [base] *)
Definition changes_ok (base ch : @int R) : Prop := ext_ok (Mof base ch) (i_ops ch).

Inductive session : @int R -> Prop :=
| S_empty : session int_empty
| S_add i ast i' : session i -> add_ast Rops i ast = (IOk tt, i') -> session i'
| S_append i ch : session i -> changes i ch -> session (append_int i ch)
| S_xor i : session i -> session (int_xor i)
with changes : @int R -> @int R -> Prop :=
| C_empty i : session i -> changes i int_empty
| C_more i ch ast ch' : changes i ch -> ast_changes Rops i ch ast = IOk ch' -> changes i ch'.

Lemma Mof_empty_l ch : Mof int_empty ch = N.ones (lenN (i_qreg ch)).
Proof. reflexivity. Qed.

Lemma changes_step i ch ast ch' : changes_ok i ch -> ast_changes Rops i ch ast = IOk ch' -> changes_ok i ch'.
Proof.
  unfold ast_changes. intros Hok H.
  destruct (process_nodes Rops i ch ast) as [c1| |] eqn:E; cbn [ibind] in H; try discriminate.
  injection H as <-. unfold changes_ok, Mof. cbn [push_ast i_qreg i_ops].
  exact (process_nodes_ok _ _ _ _ Hok E).
Qed.

Scheme session_ind2 := Induction for session Sort Prop
  with changes_ind2 := Induction for changes Sort Prop.

Lemma session_changes_ok :
  (forall i, session i -> session_ok i) /\ (forall i ch, changes i ch -> session_ok i /\ changes_ok i ch).
Proof.
  assert (H : forall i (s : session i), session_ok i)
    by (apply (session_ind2 (fun i _ => session_ok i) (fun i ch _ => session_ok i /\ changes_ok i ch));
        [ split; [constructor|apply okq_nil]
        | intros i ast i' _ Hi Hadd; unfold add_ast in Hadd;
          destruct (ast_changes Rops int_empty i ast) as [i2| |] eqn:E; try discriminate;
          injection Hadd as <-; unfold session_ok; rewrite <- Mof_empty_l;
          apply (changes_step int_empty i ast i2); [unfold changes_ok; rewrite Mof_empty_l; exact Hi|exact E]
        | intros i ch _ Hi _ [_ Hch]; unfold session_ok; cbn [append_int i_qreg i_ops];
          apply ext_ok_append; [eapply ext_ok_mono; [|exact Hi]; apply inside_ones_le; rewrite lenN_app; lia|exact Hch]
        | intros i _ Hi; exact Hi
        | intros i _ Hi; split; [exact Hi|split; [constructor|apply okq_nil]]
        | intros i ch ast ch' _ [Hi Hch] E; split; [exact Hi|exact (changes_step i ch ast ch' Hch E)] ]).
  split; [exact H|].
  intros i ch Hc. induction Hc as [i Hs|i ch ast ch' Hc [IH1 IH2] E].
  - split; [apply H; exact Hs|split; [constructor|apply okq_nil]].
  - split; [exact IH1|exact (changes_step i ch ast ch' IH2 E)].
Qed.

Open Scope R_scope.

(** the final register of any run of any session *)
Definition C05_session_stmt : Prop :=
  forall (i : @int R), session i ->
  forall (draws : list N) (s' : @sym R),
    sym_finish Rops E15 E9 (sym_new Rops i) draws = Some s' ->
    let r := s_q s' in
    shaped r /\ q_num r = lenN (i_qreg i) /\
    (forall j, (2 ^ q_num r <= j)%N -> get Rops (q_psi r) j = c0 Rops) /\
    1 - E9 <= norm r <= 1.

Lemma run_valid (i : @int R) : session_ok i ->
  forall (draws : list N) (s' : @sym R),
    sym_finish Rops E15 E9 (sym_new Rops i) draws = Some s' ->
    let r := s_q s' in
    shaped r /\ q_num r = lenN (i_qreg i) /\
    (forall j, (2 ^ q_num r <= j)%N -> get Rops (q_psi r) j = c0 Rops) /\
    1 - E9 <= norm r <= 1.
Proof.
  intros [Hb Ho] draws s' Hf r.
  unfold sym_finish in Hf. cbn [sym_new s_xor s_q s_c s_ops] in Hf.
  destruct (run_blocks Rops E15 E9 (i_xor i) (reg_new Rops (lenN (i_qreg i))) (creg_new (lenN (i_creg i))) (blocks (i_ops i)) draws)
    as [[[r1 c1] rest]|] eqn:Er; [|discriminate].
  injection Hf as <-. cbn [s_q] in r.
  assert (H0 : InvK 1 (reg_new Rops (lenN (i_qreg i)))) by (apply InvK_of_Inv; [apply with_state_inv|apply padz_with_state]).
  destruct (run_blocks_inv 1 (N.ones (lenN (i_qreg i))) (le_n 1) _ _ _ _ _ _ _ _ H0 eq_refl Hb Er) as [HI1 [HM1 HN1]].
  assert (HI : InvK 1 r).
  { apply (stepK 1 r1 (Apply (open (i_ops i))) (le_n 1) HI1). apply (okq_adm (N.ones (lenN (i_qreg i)))); assumption. }
  destruct HI as [Hs [Hp Hn]]. split; [exact Hs|]. split; [|split].
  - unfold r. cbn [apply_block reg_apply q_num]. exact HN1.
  - intros j Hj. apply Hp. rewrite p2_to_nat. exact Hj.
  - cbn [pow] in Hn. rewrite Rmult_1_r in Hn. exact Hn.
Qed.

Lemma C05_session_proof : C05_session_stmt.
Proof. intros i Hs. apply run_valid. exact (proj1 session_changes_ok i Hs). Qed.
