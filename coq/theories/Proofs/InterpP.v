(** * InterpP: structural lemmas about the interpreter model (any scalar instance) *)
From Coq Require Import Lia String.
From QV Require Import Interp BitsP.
Open Scope N_scope.

Section InterpP.
  Context {F : Type} (OP : ops F).
  Local Notation int := (@int F).
  Local Notation node := (@node F).

  Lemma ibind_ok {A B} (r : ires A) (k : A -> ires B) b :
    ibind r k = IOk b -> exists a, r = IOk a /\ k a = IOk b.
  Proof. destruct r as [a|e|w]; cbn [ibind]; intro H; [exists a; auto|discriminate|discriminate]. Qed.

  (** what one statement may change: never the record of accepted chunks nor the mode *)
  Definition same_meta (a b : int) : Prop := i_asts a = i_asts b /\ i_xor a = i_xor b.

  Lemma same_meta_refl a : same_meta a a.
  Proof. split; reflexivity. Qed.
  Lemma same_meta_trans a b c : same_meta a b -> same_meta b c -> same_meta a c.
  Proof. intros [H1 H2] [H3 H4]. split; congruence. Qed.
  Lemma same_meta_set_ops c o : same_meta c (set_ops c o).
  Proof. split; reflexivity. Qed.

  Lemma process_apply_meta base ch name regs args ch' :
    process_apply OP base ch name regs args = IOk ch' -> same_meta ch ch'.
  Proof.
    unfold process_apply. intro H.
    apply ibind_ok in H. destruct H as [rv [_ H]].
    apply ibind_ok in H. destruct H as [av [_ H]].
    apply ibind_ok in H. destruct H as [o [_ H]].
    injection H as <-. apply same_meta_set_ops.
  Qed.

  Lemma process_node1_meta base ch n ch' :
    process_node1 OP base ch n = IOk ch' -> same_meta ch ch'.
  Proof.
    destruct n as [alias size|alias size|a|a|q c|name regs args| |name regs params body|lhs rhs body];
      cbn [process_node1]; intro H.
    - unfold process_qreg in H. repeat (apply ibind_ok in H; destruct H as [? [_ H]]).
      injection H as <-. split; reflexivity.
    - unfold process_creg in H. repeat (apply ibind_ok in H; destruct H as [? [_ H]]).
      injection H as <-. split; reflexivity.
    - injection H as <-. apply same_meta_refl.
    - apply ibind_ok in H. destruct H as [? [_ H]]. injection H as <-. apply same_meta_set_ops.
    - apply ibind_ok in H. destruct H as [? [_ H]]. apply ibind_ok in H. destruct H as [? [_ H]].
      destruct (negb _); [discriminate|]. injection H as <-. apply same_meta_set_ops.
    - eapply process_apply_meta. exact H.
    - injection H as <-. apply same_meta_refl.
    - unfold process_gate in H. apply ibind_ok in H. destruct H as [m [_ H]].
      destruct (has_macro name base || has_macro name ch)%bool; [discriminate|].
      apply ibind_ok in H. destruct H as [? [_ H]]. injection H as <-. split; reflexivity.
    - destruct body; try discriminate.
      apply ibind_ok in H. destruct H as [v [_ H]]. apply ibind_ok in H. destruct H as [ch2 [H2 H]].
      injection H as <-. apply process_apply_meta in H2.
      eapply same_meta_trans; [apply same_meta_set_ops|].
      eapply same_meta_trans; [exact H2|apply same_meta_set_ops].
  Qed.

  Lemma process_nodes_meta nodes : forall base ch ch',
    process_nodes OP base ch nodes = IOk ch' -> same_meta ch ch'.
  Proof.
    induction nodes as [|n rest IH]; intros base ch ch' H; cbn [process_nodes] in H.
    - injection H as <-. apply same_meta_refl.
    - apply ibind_ok in H. destruct H as [c1 [H1 H]].
      eapply same_meta_trans; [eapply process_node1_meta; exact H1|eapply IH; exact H].
  Qed.

  (** processing a concatenation = processing the pieces one after the other *)
  Lemma process_nodes_app p1 : forall base ch p2,
    process_nodes OP base ch (p1 ++ p2) =
    ibind (process_nodes OP base ch p1) (fun ch1 => process_nodes OP base ch1 p2).
  Proof.
    induction p1 as [|n rest IH]; intros base ch p2; cbn [app process_nodes ibind]; [reflexivity|].
    destruct (process_node1 OP base ch n) as [c1|e|w]; cbn [ibind]; [apply IH|reflexivity|reflexivity].
  Qed.
End InterpP.
