//! Line-oriented driver that runs cases against the qvnt implementation.
//!
//! usage: qv-harness <engine>      (cases on stdin, one per line: `<id> <kind> <args...>`)
//! For every case it prints `BEGIN <id>` before running and `RES <id> <payload>` after, each
//! flushed, so that a supervising process can attribute a hang or an abort to a case.

mod bits;
mod conc;
mod expr;
mod ops;
mod qasm;
mod reg;
mod sampler;
mod util;

use std::io::{self, BufRead, Write};

fn main() {
    let engine = std::env::args().nth(1).unwrap_or_default();
    // panics are reported through catch_unwind; silence the default hook
    std::panic::set_hook(Box::new(|_| {}));
    let stdin = io::stdin();
    let stdout = io::stdout();
    // QV_FRESH: 0 = every case on the main thread only, 2 = on a thread of its own only, 1 (default) = both
    let fresh_mode: u8 = std::env::var("QV_FRESH").ok().and_then(|v| v.parse().ok()).unwrap_or(1);
    for line in stdin.lock().lines() {
        let line = line.expect("stdin");
        let line = line.trim();
        if line.is_empty() || line.starts_with('#') {
            continue;
        }
        let mut toks = line.split_whitespace();
        let id = toks.next().unwrap().to_string();
        let toks: Vec<&str> = toks.collect();
        {
            let mut o = stdout.lock();
            writeln!(o, "BEGIN {}", id).unwrap();
            o.flush().unwrap();
        }
        // State that outlives a call (thread-local caches, counters, lazily built tables) must not change any
        // result.  Every case runs on the shared main thread, where it sees whatever the cases before it left
        // behind, and then once more on a thread of its own, where all such state is in its initial condition; the
        // two payloads must be identical.  When they are not, the second one is reported on an `ALT` line.
        let dispatch = |engine: &str, toks: &[&str]| match engine {
            "ops" => ops::run(toks),
            "bits" => bits::run(toks),
            "reg" => reg::run(toks),
            "conc" => conc::run(toks),
            "qasm" => qasm::run(toks),
            "sampler" => sampler::run(toks),
            other => format!("ERR unknown-engine {}", other),
        };
        let on_fresh_thread = |engine: &str, toks: &[&str]| {
            let eng = engine.to_string();
            let owned: Vec<String> = toks.iter().map(|s| s.to_string()).collect();
            let h = std::thread::Builder::new().stack_size(8 << 20).spawn(move || {
                qasm::TWIN.with(|t| t.set(true));
                let toks: Vec<&str> = owned.iter().map(|s| s.as_str()).collect();
                dispatch(&eng, &toks)
            }).expect("spawn");
            match h.join() {
                Ok(s) => s,
                Err(e) => format!("PANIC {}", util::panic_class(&e)),
            }
        };
        let twin = fresh_mode == 1 && engine != "conc" && engine != "sampler"
            && !toks.iter().any(|t| *t == "freq" || *t == "seqfreq" || *t == "samplestats")
            // the draws of rayon workers are not reproducible from the case's seed: no repetition for threaded registers
            && !(engine == "reg" && toks.iter().any(|t| matches!(*t, "threads" | "tensorrt" | "tensorlt" | "mulassignt")));
        let payload = if fresh_mode == 2 {
            on_fresh_thread(&engine, &toks)
        } else {
            match std::panic::catch_unwind(|| dispatch(&engine, &toks)) {
                Ok(s) => s,
                Err(e) => format!("PANIC {}", util::panic_class(&e)),
            }
        };
        if twin {
            let again = on_fresh_thread(&engine, &toks);
            // (the note about the re-used simulator belongs to the shared run only)
            let core = |p: &str| -> String { match p.find(" reuse ") { Some(k) => p[..k].to_string(), None => p.to_string() } };
            if core(&again) != core(&payload) {
                let mut o = stdout.lock();
                writeln!(o, "ALT {} {}", id, again).unwrap();
            }
        }
        let mut o = stdout.lock();
        writeln!(o, "RES {} {}", id, payload).unwrap();
        o.flush().unwrap();
    }
}
