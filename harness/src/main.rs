//! Line-oriented driver that runs cases against the qvnt implementation.
//!
//! usage: qv-harness <engine>      (cases on stdin, one per line: `<id> <kind> <args...>`)
//! For every case it prints `BEGIN <id>` before running and `RES <id> <payload>` after, each
//! flushed, so that a supervising process can attribute a hang or an abort to a case.

mod bits;
mod conc;
mod expr;
mod ops;
mod qasm;
mod reg;
mod sampler;
mod util;

use std::io::{self, BufRead, Write};

fn fnv(t: &str) -> u64 {
    t.bytes().fold(0xcbf29ce484222325u64, |h, b| (h ^ b as u64).wrapping_mul(0x100000001b3))
}

fn main() {
    let engine = std::env::args().nth(1).unwrap_or_default();
    // panics are reported through catch_unwind; silence the default hook
    std::panic::set_hook(Box::new(|_| {}));
    let stdin = io::stdin();
    let stdout = io::stdout();
    // QV_FRESH: 0 = every case on the main thread, 2 = every case on a thread of its own, otherwise mixed
    let fresh_mode: u8 = std::env::var("QV_FRESH").ok().and_then(|v| v.parse().ok()).unwrap_or(1);
    let seed_mix = fnv(&std::env::var("VERIF_SEED").unwrap_or_default());
    for line in stdin.lock().lines() {
        let line = line.expect("stdin");
        let line = line.trim();
        if line.is_empty() || line.starts_with('#') {
            continue;
        }
        let mut toks = line.split_whitespace();
        let id = toks.next().unwrap().to_string();
        let toks: Vec<&str> = toks.collect();
        {
            let mut o = stdout.lock();
            writeln!(o, "BEGIN {}", id).unwrap();
            o.flush().unwrap();
        }
        // State that outlives a call (thread-local caches, counters, lazily built tables) must not change any
        // result: about half of the cases -- chosen by a hash of the case id and VERIF_SEED -- run on a thread of
        // their own, where every such state is in its initial condition; the others share the main thread and
        // see whatever the cases before them left behind.  Both kinds are compared with the model alike.
        let fresh = fresh_mode != 0 && (fresh_mode == 2 || (fnv(&id) ^ seed_mix) & 0x100 != 0) && engine != "conc";
        let dispatch = |engine: &str, toks: &[&str]| match engine {
            "ops" => ops::run(toks),
            "bits" => bits::run(toks),
            "reg" => reg::run(toks),
            "conc" => conc::run(toks),
            "qasm" => qasm::run(toks),
            "sampler" => sampler::run(toks),
            other => format!("ERR unknown-engine {}", other),
        };
        let payload = if fresh {
            let eng = engine.clone();
            let owned: Vec<String> = toks.iter().map(|s| s.to_string()).collect();
            let h = std::thread::Builder::new().stack_size(8 << 20).spawn(move || {
                let toks: Vec<&str> = owned.iter().map(|s| s.as_str()).collect();
                dispatch(&eng, &toks)
            }).expect("spawn");
            match h.join() {
                Ok(s) => s,
                Err(e) => format!("PANIC {}", util::panic_class(&e)),
            }
        } else {
            match std::panic::catch_unwind(|| dispatch(&engine, &toks)) {
                Ok(s) => s,
                Err(e) => format!("PANIC {}", util::panic_class(&e)),
            }
        };
        let mut o = stdout.lock();
        writeln!(o, "RES {} {}", id, payload).unwrap();
        o.flush().unwrap();
    }
}
