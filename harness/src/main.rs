//! Line-oriented driver that runs cases against the qvnt implementation.
//!
//! usage: qv-harness <engine>      (cases on stdin, one per line: `<id> <kind> <args...>`)
//! For every case it prints `BEGIN <id>` before running and `RES <id> <payload>` after, each
//! flushed, so that a supervising process can attribute a hang or an abort to a case.

mod bits;
mod conc;
mod expr;
mod ops;
mod qasm;
mod reg;
mod sampler;
mod util;

use std::io::{self, BufRead, Write};

fn main() {
    let engine = std::env::args().nth(1).unwrap_or_default();
    // panics are reported through catch_unwind; silence the default hook
    std::panic::set_hook(Box::new(|_| {}));
    let stdin = io::stdin();
    let stdout = io::stdout();
    for line in stdin.lock().lines() {
        let line = line.expect("stdin");
        let line = line.trim();
        if line.is_empty() || line.starts_with('#') {
            continue;
        }
        let mut toks = line.split_whitespace();
        let id = toks.next().unwrap().to_string();
        let toks: Vec<&str> = toks.collect();
        {
            let mut o = stdout.lock();
            writeln!(o, "BEGIN {}", id).unwrap();
            o.flush().unwrap();
        }
        let res = std::panic::catch_unwind(|| match engine.as_str() {
            "ops" => ops::run(&toks),
            "bits" => bits::run(&toks),
            "reg" => reg::run(&toks),
            "conc" => conc::run(&toks),
            "qasm" => qasm::run(&toks),
            "sampler" => sampler::run(&toks),
            other => format!("ERR unknown-engine {}", other),
        });
        let payload = match res {
            Ok(s) => s,
            Err(e) => format!("PANIC {}", util::panic_class(&e)),
        };
        let mut o = stdout.lock();
        writeln!(o, "RES {} {}", id, payload).unwrap();
        o.flush().unwrap();
    }
}
