//! engine `bits`: virtual and classical registers, mask bookkeeping.
//!
//!   vreg M                 -> OK <len> <entries...>           (VReg::from(mask), entries probed by index)
//!   vregnew NUM            -> OK <len> <entries...>           (VReg::new(num))
//!   vregsel M K i1..iK     -> OK <v[list]> <v[..]> <len>      (closure / array / range index forms)
//!   getvregby N M          -> NONE | OK <len> <entries...>
//!   getvreg N              -> OK <len> <entries...>
//!   creg N STATE <ops..>   -> OK <get> <num> <debug digits>   ops: s1 M | s0 M | x1 M | x0 M
//!   cmul N1 S1 N2 S2       -> OK <num> <get>

use qvnt::prelude::*;

use crate::util::*;

fn entries(v: &VReg) -> Vec<usize> {
    let mut out = vec![];
    for i in 0..70 {
        match std::panic::catch_unwind(std::panic::AssertUnwindSafe(|| v[i])) {
            Ok(x) => out.push(x),
            Err(_) => break,
        }
    }
    out
}

fn fmt_entries(e: &[usize]) -> String {
    let mut s = format!("OK {}", e.len());
    for x in e {
        s.push_str(&format!(" {}", x));
    }
    s
}

pub fn run(toks: &[&str]) -> String {
    let mut t = toks.iter().copied();
    match t.next().unwrap() {
        "vreg" => {
            let m = parse_n(t.next().unwrap());
            let v = VReg::from(m);
            fmt_entries(&entries(&v))
        }
        "vregnew" => {
            let n = parse_n(t.next().unwrap());
            let v = VReg::new(n);
            fmt_entries(&entries(&v))
        }
        "vregsel" => {
            let m = parse_n(t.next().unwrap());
            let k = parse_n(t.next().unwrap());
            let idx: Vec<usize> = (0..k).map(|_| parse_n(t.next().unwrap())).collect();
            let v = VReg::from(m);
            let by_closure = { let idx = idx.clone(); v[move |i| idx.contains(&i)] };
            let by_array = match idx.len() {
                0 => v[[]],
                1 => v[[idx[0]]],
                2 => v[[idx[0], idx[1]]],
                3 => v[[idx[0], idx[1], idx[2]]],
                4 => v[[idx[0], idx[1], idx[2], idx[3]]],
                _ => by_closure,
            };
            if by_array != by_closure {
                return format!("ERR array-form {} closure-form {}", by_array, by_closure);
            }
            let all = v[..];
            // a predicate that itself looks into the view (or into a clone of it) while the selection is being built
            let nested = { let idx = idx.clone(); let vr = &v; v[move |i| idx.contains(&i) && (vr[[i]] | 1) != 0] };
            if nested != by_closure {
                return format!("ERR nested-predicate-form {} closure-form {}", nested, by_closure);
            }
            let w = v.clone();
            let cloned = { let idx = idx.clone(); v[move |i| idx.contains(&i) && w[..] == all] };
            if cloned != by_closure {
                return format!("ERR predicate-over-clone-form {} closure-form {}", cloned, by_closure);
            }
            format!("OK {} {} {}", by_closure, all, entries(&v).len())
        }
        "getvregby" => {
            let n = parse_n(t.next().unwrap());
            let m = parse_n(t.next().unwrap());
            match QReg::new(n).get_vreg_by(m) {
                None => "NONE".into(),
                Some(v) => fmt_entries(&entries(&v)),
            }
        }
        "getvreg" => {
            let n = parse_n(t.next().unwrap());
            fmt_entries(&entries(&QReg::new(n).get_vreg()))
        }
        "creg" => {
            let n = parse_n(t.next().unwrap());
            let st = parse_n(t.next().unwrap());
            let mut c = CReg::with_state(n, st);
            while let Some(op) = t.next() {
                let m = parse_n(t.next().unwrap());
                match op {
                    "s1" => c.set(true, m),
                    "s0" => c.set(false, m),
                    "x1" => c.xor(true, m),
                    "x0" => c.xor(false, m),
                    _ => return "ERR op".into(),
                }
            }
            format!("OK {} {} {:?}", c.get(), c.num(), c)
        }
        "cmul" => {
            let n1 = parse_n(t.next().unwrap());
            let s1 = parse_n(t.next().unwrap());
            let n2 = parse_n(t.next().unwrap());
            let s2 = parse_n(t.next().unwrap());
            let c = CReg::with_state(n1, s1) * CReg::with_state(n2, s2);
            // the assigning form must give the very same register (value, width, printed form, equality)
            let mut d = CReg::with_state(n1, s1);
            d *= CReg::with_state(n2, s2);
            let (dc, dd) = (format!("{:?}", c), format!("{:?}", d));
            if d != c || dc != dd || d.num() != c.num() || d.get() != c.get() {
                return format!("MISMATCH a*=b gives {} {} {} but a*b gives {} {} {}", d.num(), d.get(), dd, c.num(), c.get(), dc);
            }
            // printed form: n binary digits of the value
            let n = c.num();
            if n < 64 {
                let want = if n == 0 { "()".to_string() } else { format!("({:0width$b})", c.get(), width = n) };
                if dc != want {
                    return format!("MISMATCH printed form {} of a {}-bit register holding {}", dc, n, c.get());
                }
            }
            format!("OK {} {}", c.num(), c.get())
        }
        other => format!("ERR unknown-kind {}", other),
    }
}
