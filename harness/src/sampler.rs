//! engine `sampler`: rand's WeightedIndex (as used by measure_mask) under a scripted generator.
//!
//!   wsample <u64 hex> <k> <k weights as f64 hex>  -> OK <index> | ERR <kind>

use rand::{distributions::WeightedIndex, prelude::*, Error, RngCore};

use crate::util::*;

struct Scripted(u64);

impl RngCore for Scripted {
    fn next_u32(&mut self) -> u32 {
        (self.0 >> 32) as u32
    }
    fn next_u64(&mut self) -> u64 {
        self.0
    }
    fn fill_bytes(&mut self, dest: &mut [u8]) {
        for (i, b) in dest.iter_mut().enumerate() {
            *b = (self.0 >> (8 * (i % 8))) as u8;
        }
    }
    fn try_fill_bytes(&mut self, dest: &mut [u8]) -> Result<(), Error> {
        self.fill_bytes(dest);
        Ok(())
    }
}

pub fn run(toks: &[&str]) -> String {
    let mut t = toks.iter().copied();
    match t.next().unwrap() {
        "wsample" => {
            let x = u64::from_str_radix(t.next().unwrap(), 16).unwrap();
            let k = parse_n(t.next().unwrap());
            let w: Vec<f64> = (0..k).map(|_| unhex(t.next().unwrap())).collect();
            match WeightedIndex::new(w) {
                Ok(d) => format!("OK {}", Scripted(x).sample(d)),
                Err(e) => format!("ERR {:?}", e),
            }
        }
        other => format!("ERR unknown-kind {}", other),
    }
}
