use std::any::Any;

pub type C = num_complex::Complex<f64>;

pub fn hex(x: f64) -> String {
    format!("{:016x}", x.to_bits())
}

pub fn unhex(s: &str) -> f64 {
    f64::from_bits(u64::from_str_radix(s, 16).expect("hex f64"))
}

pub fn parse_n(s: &str) -> usize {
    if let Some(h) = s.strip_prefix("0x") {
        usize::from_str_radix(h, 16).expect("hex usize")
    } else {
        s.parse().expect("usize")
    }
}

pub fn fmt_c(v: &[C]) -> String {
    let mut s = String::with_capacity(v.len() * 34);
    for z in v {
        s.push(' ');
        s.push_str(&hex(z.re));
        s.push(' ');
        s.push_str(&hex(z.im));
    }
    s
}

/// Map a panic payload to a small class; the full text follows after the class.
pub fn panic_class(e: &Box<dyn Any + Send>) -> String {
    let msg = if let Some(s) = e.downcast_ref::<&str>() {
        s.to_string()
    } else if let Some(s) = e.downcast_ref::<String>() {
        s.clone()
    } else {
        "?".to_string()
    };
    let class = if msg.contains("Mask should contain 1 bit") {
        "mask1"
    } else if msg.contains("Mask should contain 2 bit") {
        "mask2"
    } else if msg.contains("index out of bounds") || msg.contains("out of range") {
        "index"
    } else if msg.contains("overflow") {
        "overflow"
    } else if msg.contains("called `Option::unwrap()` on a `None` value") {
        "unwrap-none"
    } else if msg.contains("called `Result::unwrap()` on an `Err` value") {
        "unwrap-err"
    } else if msg.contains("byte index") || msg.contains("char boundary") {
        "str-slice"
    } else {
        "other"
    };
    format!("{} {}", class, msg.replace('\n', " "))
}
