//! engine `conc`: concurrent use of registers (one scenario per process run).
//!
//!   os <threads> <iters> <n> <k1,k2,..>       plain OS threads, thread i drives a register with num_threads(k_i)
//!   nested <outer> <tasks> <n> <k1,k2,..>     workers of the caller's own rayon pool (par_iter), task j uses k_(j mod len)
//!   first <threads> <n> <k1,k2,..>            first-use race: all threads start at a barrier on a fresh process
//! -> OK digests d1 d2 ... | solo s1 s2 ... | trace <len> id:want:kind ...
//! `digests` are hashes of each register's final raw buffer; `solo` the same computations made alone afterwards.

use std::sync::{Arc, Barrier};

use qvnt::prelude::*;
use rayon::prelude::*;

use crate::util::*;

fn work(n: usize, k: usize, salt: usize, iters: usize) -> u64 {
    let mut r = QReg::with_state(n, salt % (1 << n));
    if k > 1 {
        r = r.num_threads(k).expect("num_threads");
    }
    for i in 0..iters {
        r.apply(&op::h((1 << n) - 1));
        r.apply(&op::rz(0.3 + (salt + i) as f64 * 0.01, 1 << ((salt + i) % n)));
        r.apply(&op::x(1 << (i % n)).c(1 << ((i + 1) % n)).unwrap());
        if i % 3 == 0 {
            let _ = r.get_probabilities();
        }
    }
    let mut h = 0xcbf29ce484222325u64;
    for z in r.verif_raw() {
        for b in z.re.to_bits().to_le_bytes().iter().chain(z.im.to_bits().to_le_bytes().iter()) {
            h ^= *b as u64;
            h = h.wrapping_mul(0x100000001b3);
        }
    }
    h
}

fn parse_ks(s: &str) -> Vec<usize> {
    s.split(',').map(|x| parse_n(x)).collect()
}

pub fn run(toks: &[&str]) -> String {
    let mut t = toks.iter().copied();
    let kind = t.next().unwrap();
    let a = parse_n(t.next().unwrap());
    let (b, n, ks) = if kind == "first" {
        let n = parse_n(t.next().unwrap());
        (1, n, parse_ks(t.next().unwrap()))
    } else {
        let b = parse_n(t.next().unwrap());
        let n = parse_n(t.next().unwrap());
        (b, n, parse_ks(t.next().unwrap()))
    };
    let _ = qvnt::verif::take_trace();
    let (digests, jobs): (Vec<u64>, Vec<(usize, usize)>) = match kind {
        "os" | "first" => {
            let barrier = Arc::new(Barrier::new(a));
            let hs: Vec<_> = (0..a)
                .map(|i| {
                    let k = ks[i % ks.len()];
                    let barrier = barrier.clone();
                    std::thread::spawn(move || {
                        barrier.wait();
                        work(n, k, i, b * 4)
                    })
                })
                .collect();
            let d = hs.into_iter().map(|h| h.join().expect("thread panicked")).collect();
            (d, (0..a).map(|i| (ks[i % ks.len()], b * 4)).collect())
        }
        "nested" => {
            let pool = rayon::ThreadPoolBuilder::new().num_threads(a).build().unwrap();
            let d = pool.install(|| {
                (0..b).into_par_iter().map(|j| work(n, ks[j % ks.len()], j, 6)).collect::<Vec<u64>>()
            });
            (d, (0..b).map(|j| (ks[j % ks.len()], 6)).collect())
        }
        _ => return "ERR kind".into(),
    };
    let trace = qvnt::verif::take_trace();
    // the same computations made alone
    let solo: Vec<u64> = jobs.iter().enumerate().map(|(i, (k, it))| work(n, *k, i, *it)).collect();
    let mut s = String::from("OK digests");
    for d in &digests { s.push_str(&format!(" {:016x}", d)); }
    s.push_str(" | solo");
    for d in &solo { s.push_str(&format!(" {:016x}", d)); }
    s.push_str(&format!(" | trace {}", trace.len()));
    for (id, want, kind) in &trace { s.push_str(&format!(" {}:{}:{}", id, want, kind)); }
    s
}
