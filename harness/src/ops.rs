//! engine `ops`: operators, their matrices and their action on registers.
//!
//!   matrix N <expr>                  -> OK <act_on> <len> <acts...> <N*N complex, row major>
//!   struct <expr>                    -> OK <act_on> <len> <act_on of each element...>
//!   applybasis N J [K] <expr>        -> OK <raw buffer>   (QReg::with_state(N,J), K threads if K>1)
//!   applyraw N T <2*len hex> <expr>  -> OK <raw buffer>   (register built over a raw buffer)
//!   applyseq N J <count> <expr>*     -> OK <raw buffer>   (factors applied one after another)
//!   probe N J <cnt> <idx...> <expr>  -> OK <amplitudes at the listed indices>
//!   probet N J K <cnt> <idx...> <expr> -> the same on a register with K worker threads
//!   singlec N IDX MASK <expr>        -> like matrix, for `SingleOp::c(MASK)` called on element IDX of the queue
//! `REFUSED` when `.c()` returned None; panics are classified by main.

use qvnt::prelude::*;

use crate::{expr::*, util::*};

fn structure(o: &MultiOp) -> String {
    let mut s = format!("{} {}", o.act_on(), o.len());
    for e in o.iter() {
        s.push_str(&format!(" {}", e.act_on()));
    }
    s
}

pub fn run(toks: &[&str]) -> String {
    let mut t = toks.iter().copied();
    let kind = t.next().unwrap();
    match kind {
        "matrix" => {
            let n = parse_n(t.next().unwrap());
            match parse(&mut t) {
                Built::Refused => "REFUSED".into(),
                Built::Op(o) => {
                    let m = o.matrix(n);
                    let mut s = format!("OK {}", structure(&o));
                    for row in &m {
                        s.push_str(&fmt_c(row));
                    }
                    s
                }
            }
        }
        "singlec" => {
            let n = parse_n(t.next().unwrap());
            let idx = parse_n(t.next().unwrap());
            let mask = parse_n(t.next().unwrap());
            match parse(&mut t) {
                Built::Refused => "REFUSED".into(),
                Built::Op(o) => {
                    let o2: MultiOp = if idx < o.len() {
                        match o[idx].clone().c(mask) {
                            None => return "REFUSED".into(),
                            Some(s) => s.into(),
                        }
                    } else {
                        op::id()
                    };
                    let m = o2.matrix(n);
                    let mut s = format!("OK {}", structure(&o2));
                    for row in &m {
                        s.push_str(&fmt_c(row));
                    }
                    s
                }
            }
        }
        "struct" => match parse(&mut t) {
            Built::Refused => "REFUSED".into(),
            Built::Op(o) => format!("OK {}", structure(&o)),
        },
        "applybasis" => {
            let n = parse_n(t.next().unwrap());
            let j = parse_n(t.next().unwrap());
            let k = parse_n(t.next().unwrap());
            match parse(&mut t) {
                Built::Refused => "REFUSED".into(),
                Built::Op(o) => {
                    let mut r = QReg::with_state(n, j);
                    if k > 1 {
                        r = match r.num_threads(k) { Some(r) => r, None => return "NOTHREADS".into() };
                    }
                    r.apply(&o);
                    format!("OK{}", fmt_c(r.verif_raw()))
                }
            }
        }
        "applyraw" => {
            let n = parse_n(t.next().unwrap());
            let k = parse_n(t.next().unwrap());
            let len = (1usize << n).max(8);
            let mut psi = Vec::with_capacity(len);
            for _ in 0..len {
                let re = unhex(t.next().unwrap());
                let im = unhex(t.next().unwrap());
                psi.push(C::new(re, im));
            }
            match parse(&mut t) {
                Built::Refused => "REFUSED".into(),
                Built::Op(o) => {
                    let mut r = QReg::verif_from_raw(n, psi);
                    if k > 1 {
                        r = match r.num_threads(k) { Some(r) => r, None => return "NOTHREADS".into() };
                    }
                    r.apply(&o);
                    format!("OK{}", fmt_c(r.verif_raw()))
                }
            }
        }
        "applyseq" => {
            let n = parse_n(t.next().unwrap());
            let j = parse_n(t.next().unwrap());
            let cnt = parse_n(t.next().unwrap());
            let mut r = QReg::with_state(n, j);
            for _ in 0..cnt {
                match parse(&mut t) {
                    Built::Refused => return "REFUSED".into(),
                    Built::Op(o) => r.apply(&o),
                }
            }
            format!("OK{}", fmt_c(r.verif_raw()))
        }
        "probe" | "probet" => {
            let n = parse_n(t.next().unwrap());
            let j = parse_n(t.next().unwrap());
            let k = if kind == "probet" { parse_n(t.next().unwrap()) } else { 1 };
            let cnt = parse_n(t.next().unwrap());
            let idxs: Vec<usize> = (0..cnt).map(|_| parse_n(t.next().unwrap())).collect();
            match parse(&mut t) {
                Built::Refused => "REFUSED".into(),
                Built::Op(o) => {
                    let mut r = QReg::with_state(n, j);
                    if k > 1 {
                        r = match r.num_threads(k) { Some(r) => r, None => return "NOTHREADS".into() };
                    }
                    r.apply(&o);
                    let raw = r.verif_raw();
                    let v: Vec<C> = idxs.iter().map(|&i| raw[i]).collect();
                    format!("OK{}", fmt_c(&v))
                }
            }
        }
        other => format!("ERR unknown-kind {}", other),
    }
}
