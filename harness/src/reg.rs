//! engine `reg`: a history of public operations on one quantum register.
//!
//! case = `<seed> <action> ; <action> ; ...` with actions
//!   new N | with N ST | raw N <2*len hex> | threads K
//!   apply <expr> | measure MASK | measureall
//!   tensorr N2 <2*len2 hex> | tensorl N2 <2*len2 hex> | mulassign N2 <2*len2 hex>
//!   clonefrom K (Clone::clone_from into a K-qubit register) | setnum K | sample COUNT | probs | abs | polar | dump
//! output: records separated by ` | `:
//!   d N LEN <hex pairs> | m V NUM | h K cells.. n K <hex>.. | p K <hex>.. | b <hex> | o K <hex pairs> | x <panic class>
//! Each action runs under catch_unwind; a panic ends the case with an `x` record.

use std::panic::{catch_unwind, AssertUnwindSafe};

use qvnt::prelude::*;

use crate::{expr::*, util::*};

fn read_raw<'a, I: Iterator<Item = &'a str>>(t: &mut I, n: usize) -> Vec<C> {
    let len = (1usize << n).max(8);
    (0..len)
        .map(|_| {
            let re = unhex(t.next().unwrap());
            let im = unhex(t.next().unwrap());
            C::new(re, im)
        })
        .collect()
}

pub fn run(toks: &[&str]) -> String {
    let seed: u64 = toks[0].parse().unwrap();
    qvnt::verif::seed(seed);
    let _ = qvnt::verif::take_normals();
    let mut out: Vec<String> = vec![];
    let mut reg = QReg::new(0);
    for action in toks[1..].split(|t| *t == ";") {
        if action.is_empty() {
            continue;
        }
        let res = catch_unwind(AssertUnwindSafe(|| -> Option<String> {
            let mut t = action.iter().copied();
            let kind = t.next().unwrap();
            match kind {
                "new" => { reg = QReg::new(parse_n(t.next().unwrap())); None }
                "with" => {
                    let n = parse_n(t.next().unwrap());
                    let st = parse_n(t.next().unwrap());
                    reg = QReg::with_state(n, st);
                    None
                }
                "raw" => {
                    let n = parse_n(t.next().unwrap());
                    let psi = read_raw(&mut t, n);
                    reg = QReg::verif_from_raw(n, psi);
                    None
                }
                "threads" => {
                    let k = parse_n(t.next().unwrap());
                    match std::mem::take(&mut reg).num_threads(k) {
                        Some(r) => { reg = r; Some("t ok".into()) }
                        None => Some("t none".into()),
                    }
                }
                "apply" => match parse(&mut t) {
                    Built::Refused => Some("x refused".into()),
                    Built::Op(o) => { reg.apply(&o); None }
                },
                "measure" => {
                    let m = parse_n(t.next().unwrap());
                    let c = reg.measure_mask(m);
                    Some(format!("m {} {}", c.get(), c.num()))
                }
                "measureall" => {
                    let c = reg.measure();
                    Some(format!("m {} {}", c.get(), c.num()))
                }
                "tensorrt" | "tensorlt" | "mulassignt" => {
                    // the other operand is itself a threaded register (threading models of both factors meet)
                    let k = parse_n(t.next().unwrap());
                    let n2 = parse_n(t.next().unwrap());
                    let other = QReg::verif_from_raw(n2, read_raw(&mut t, n2));
                    let other = match other.num_threads(k) { Some(o) => o, None => return Some("t none".into()) };
                    match kind {
                        "tensorrt" => reg = std::mem::take(&mut reg) * other,
                        "tensorlt" => reg = other * std::mem::take(&mut reg),
                        _ => reg *= other,
                    }
                    None
                }
                "tensorr" => {
                    let n2 = parse_n(t.next().unwrap());
                    let other = QReg::verif_from_raw(n2, read_raw(&mut t, n2));
                    reg = std::mem::take(&mut reg) * other;
                    None
                }
                "tensorl" => {
                    let n2 = parse_n(t.next().unwrap());
                    let other = QReg::verif_from_raw(n2, read_raw(&mut t, n2));
                    reg = other * std::mem::take(&mut reg);
                    None
                }
                "mulassign" => {
                    let n2 = parse_n(t.next().unwrap());
                    let other = QReg::verif_from_raw(n2, read_raw(&mut t, n2));
                    reg *= other;
                    None
                }
                "setnum" => { reg.set_num(parse_n(t.next().unwrap())); None }
                "clonefrom" => {
                    // Clone::clone_from into an existing register of K qubits (a caller that re-uses a snapshot buffer):
                    // the history goes on with the copy
                    let k = parse_n(t.next().unwrap());
                    let mut dst = QReg::with_state(k, (1usize << k) - 1);
                    dst.clone_from(&reg);
                    reg = dst;
                    None
                }
                "sample" => {
                    let count = parse_n(t.next().unwrap());
                    let _ = qvnt::verif::take_normals();
                    let h = reg.sample_all(count);
                    let nv = qvnt::verif::take_normals();
                    let mut s = format!("h {}", h.len());
                    for c in &h { s.push_str(&format!(" {}", c)); }
                    let nv = nv.last().cloned().unwrap_or_default();
                    s.push_str(&format!(" n {}", nv.len()));
                    for x in &nv { s.push(' '); s.push_str(&hex(*x)); }
                    Some(s)
                }
                "probs" => {
                    let p = reg.get_probabilities();
                    let mut s = format!("p {}", p.len());
                    for x in &p { s.push(' '); s.push_str(&hex(*x)); }
                    Some(s)
                }
                "abs" => Some(format!("b {}", hex(reg.get_absolute()))),
                "polar" => {
                    let p = reg.get_polar();
                    let mut s = format!("o {}", p.len());
                    for (r, a) in &p { s.push(' '); s.push_str(&hex(*r)); s.push(' '); s.push_str(&hex(*a)); }
                    Some(s)
                }
                "view" => {
                    // get_vreg_by(mask): does the view exist, and its full range
                    let m = parse_n(t.next().unwrap());
                    match reg.get_vreg_by(m) {
                        Some(v) => Some(format!("w 1 {}", v[..])),
                        None => Some("w 0 0".to_string()),
                    }
                }
                "vreglen" => {
                    let v = reg.get_vreg();
                    Some(format!("v {} {}", v[..], reg.num()))
                }
                "freq" => {
                    // outcome frequencies of measure_mask over fresh clones of the current register
                    let shots = parse_n(t.next().unwrap());
                    let m = parse_n(t.next().unwrap());
                    let mut counts = std::collections::BTreeMap::<usize, usize>::new();
                    for _ in 0..shots {
                        let mut r = reg.clone();
                        *counts.entry(r.measure_mask(m).get()).or_insert(0) += 1;
                    }
                    let mut s = format!("f {}", counts.len());
                    for (k, v) in &counts { s.push_str(&format!(" {} {}", k, v)); }
                    Some(s)
                }
                "seqfreq" => {
                    // measure mask A then mask B on fresh clones: joint outcome frequencies
                    let shots = parse_n(t.next().unwrap());
                    let ma = parse_n(t.next().unwrap());
                    let mb = parse_n(t.next().unwrap());
                    let mut counts = std::collections::BTreeMap::<usize, usize>::new();
                    for _ in 0..shots {
                        let mut r = reg.clone();
                        let a = r.measure_mask(ma).get();
                        let b = r.measure_mask(mb).get();
                        *counts.entry(a | b).or_insert(0) += 1;
                    }
                    let mut s = format!("f {}", counts.len());
                    for (k, v) in &counts { s.push_str(&format!(" {} {}", k, v)); }
                    Some(s)
                }
                "samplestats" => {
                    // per-cell sum and sum of squares of sample_all(count) over reps draws
                    let count = parse_n(t.next().unwrap());
                    let reps = parse_n(t.next().unwrap());
                    let mut sum: Vec<f64> = vec![];
                    let mut sq: Vec<f64> = vec![];
                    // per-qubit marginals: shots with qubit k = 1 (joint behaviour of the cells)
                    let nq = reg.num();
                    let mut msum = vec![0.0f64; nq];
                    let mut msq = vec![0.0f64; nq];
                    for _ in 0..reps {
                        let h = reg.sample_all(count);
                        if sum.is_empty() { sum = vec![0.0; h.len()]; sq = vec![0.0; h.len()]; }
                        for (i, c) in h.iter().enumerate() { sum[i] += *c as f64; sq[i] += (*c as f64) * (*c as f64); }
                        for k in 0..nq {
                            let m: f64 = h.iter().enumerate().filter(|(i, _)| (i >> k) & 1 == 1).map(|(_, c)| *c as f64).sum();
                            msum[k] += m; msq[k] += m * m;
                        }
                    }
                    let _ = qvnt::verif::take_normals();
                    let mut s = format!("s {}", sum.len());
                    for x in &sum { s.push(' '); s.push_str(&hex(*x)); }
                    for x in &sq { s.push(' '); s.push_str(&hex(*x)); }
                    s.push_str(&format!(" | g {}", nq));
                    for x in &msum { s.push(' '); s.push_str(&hex(*x)); }
                    for x in &msq { s.push(' '); s.push_str(&hex(*x)); }
                    Some(s)
                }
                "dump" => {
                    let raw = reg.verif_raw();
                    Some(format!("d {} {}{}", reg.num(), raw.len(), fmt_c(raw)))
                }
                other => Some(format!("x unknown-action {}", other)),
            }
        }));
        match res {
            Ok(None) => {}
            Ok(Some(s)) => {
                let stop = s.starts_with("x ");
                out.push(s);
                if stop { break; }
            }
            Err(e) => {
                out.push(format!("x {}", panic_class(&e)));
                break;
            }
        }
    }
    format!("OK | {}", out.join(" | "))
}
