//! Operator expressions in prefix notation, shared by all engines:
//!
//!   id | x M | y M | z M | s M | t M | h M | rx T M | ry T M | rz T M | rxx T M | ryy T M | rzz T M
//!   swap M | sqrt_swap M | i_swap M | sqrt_i_swap M | u1 L M | u2 P L M | u3 T P L M
//!   qft M | qft_swapped M
//!   mul A B | mulassign A B | append A B | pushsingles A B | pushfront A B | dgr A | c M A
//!
//! masks are decimal or 0x-hex, angles are the 16-hex-digit bit pattern of the f64.

use qvnt::prelude::*;

use crate::util::*;

pub enum Built {
    Op(MultiOp),
    /// `.c(mask)` returned `None`
    Refused,
}

pub fn parse<'a, I: Iterator<Item = &'a str>>(t: &mut I) -> Built {
    let head = t.next().expect("operator expression");
    let mut n = |t: &mut I| parse_n(t.next().expect("mask"));
    let f = |t: &mut I| unhex(t.next().expect("angle"));
    macro_rules! sub {
        ($t:expr) => {
            match parse($t) {
                Built::Op(o) => o,
                Built::Refused => return Built::Refused,
            }
        };
    }
    Built::Op(match head {
        "id" => op::id(),
        "x" => op::x(n(t)),
        "y" => op::y(n(t)),
        "z" => op::z(n(t)),
        "s" => op::s(n(t)),
        "t" => op::t(n(t)),
        "h" => op::h(n(t)),
        "rx" => { let a = f(t); op::rx(a, n(t)) }
        "ry" => { let a = f(t); op::ry(a, n(t)) }
        "rz" => { let a = f(t); op::rz(a, n(t)) }
        "rxx" => { let a = f(t); op::rxx(a, n(t)) }
        "ryy" => { let a = f(t); op::ryy(a, n(t)) }
        "rzz" => { let a = f(t); op::rzz(a, n(t)) }
        "swap" => op::swap(n(t)),
        "sqrt_swap" => op::sqrt_swap(n(t)),
        "i_swap" => op::i_swap(n(t)),
        "sqrt_i_swap" => op::sqrt_i_swap(n(t)),
        "u1" => { let l = f(t); op::u1(l, n(t)) }
        "u2" => { let p = f(t); let l = f(t); op::u2(p, l, n(t)) }
        "u3" => { let th = f(t); let p = f(t); let l = f(t); op::u3(th, p, l, n(t)) }
        "qft" => op::qft(n(t)),
        "qft_swapped" => op::qft_swapped(n(t)),
        "mul" => { let a = sub!(t); let b = sub!(t); a * b }
        "mulassign" => { let mut a = sub!(t); let b = sub!(t); a *= b; a }
        "append" => { let mut a = sub!(t); let mut b = sub!(t); a.append(&mut b); a }
        "pushsingles" => {
            // push_back every element of B, then `*=` nothing: exercises Deref<VecDeque> + Mul<SingleOp>
            let mut a = sub!(t);
            let b = sub!(t);
            for (k, s) in b.iter().enumerate() {
                if k % 2 == 0 { a.push_back(s.clone()); } else { a *= s.clone(); }
            }
            a
        }
        "mulsingles" => {
            // Mul<SingleOp> by value for every element of B
            let mut a = sub!(t);
            let b = sub!(t);
            for s in b.iter() {
                a = a * s.clone();
            }
            a
        }
        "mulrefmut" => {
            // the `&mut MultiOp *= MultiOp` / `&mut MultiOp *= SingleOp` overloads
            let mut a = sub!(t);
            let b = sub!(t);
            {
                let mut r = &mut a;
                if b.len() % 2 == 0 {
                    r *= b;
                } else {
                    for s in b.iter() {
                        r *= s.clone();
                    }
                }
            }
            a
        }
        "pushback" => {
            // the queue A ++ B assembled through the VecDeque interface alone, starting from the empty product
            let a = sub!(t);
            let b = sub!(t);
            let mut q = qvnt::prelude::op::id();
            for s in a.iter().chain(b.iter()) {
                q.push_back(s.clone());
            }
            q
        }
        "wrapped" => {
            // A ++ B whose ring buffer has a moved head: an element is pushed to the front and taken off again, the
            // queue is rotated forth and back, and its last element is re-appended after a pop
            let a = sub!(t);
            let b = sub!(t);
            let mut q = a * b;
            if let Some(first) = q.front().cloned() {
                q.push_front(first);
                q.pop_front();
                let k = q.len() / 2;
                q.rotate_left(k);
                q.rotate_right(k);
                let last = q.pop_back().unwrap();
                q.push_front(last);
                q.rotate_left(1);
            }
            q
        }
        "pushfront" => {
            // the queue A ++ B assembled from the back: start from B and push A's elements to the front in
            // reverse order (Deref<VecDeque>::push_front; the ring buffer wraps around)
            let a = sub!(t);
            let mut b = sub!(t);
            for s in a.iter().rev() {
                b.push_front(s.clone());
            }
            b
        }
        "dgr" => { let a = sub!(t); a.dgr() }
        "c" => {
            let m = n(t);
            let a = sub!(t);
            match a.c(m) {
                Some(o) => o,
                None => return Built::Refused,
            }
        }
        other => panic!("unknown operator head {}", other),
    })
}
