//! engine `qasm`: the OpenQASM pipeline Ast::from_source -> Int -> Sym.
//!
//!   run <api> <xor> <seed> <k> <hexsrc>*k
//!        api: add | changes | prepend;  xor: 0|1
//!        -> PARSE <err> | ERR <chunk idx> <Debug of the error> | OK class V NUM q N LEN <raw> rec R qa <Debug> ca <Debug> nb B out K o..
//!   session [x]<seed> <k> <hexsrc>*k   (add_ast, failures tolerated; 'x': the session starts from Int::default().xor())
//!        -> OK v <k verdicts: ok|err:<Debug>> snap <hex of Debug after every chunk, '/'-separated> | final <as run>
//!   rerun <seed> <hexsrc> <hexsrc2>    (finish from Sym::new, reset + finish twice, init with the same Int, with another one)
//!        -> OK <raw1> / <raw2> / <raw3>  (each preceded by class)
//! Source texts are hex encoded (one token each).  A source that does not parse is reported, not run.

use qvnt::{prelude::*, qasm::Sym};

use crate::util::*;

fn unhex_str(s: &str) -> String {
    // the token carries a leading 'h' so that the empty source is still a token
    let s = s.strip_prefix('h').unwrap_or(s);
    let bytes: Vec<u8> = (0..s.len() / 2)
        .map(|i| u8::from_str_radix(&s[2 * i..2 * i + 2], 16).unwrap())
        .collect();
    String::from_utf8_lossy(&bytes).into_owned()
}

fn hex_str(s: &str) -> String {
    s.bytes().map(|b| format!("{:02x}", b)).collect()
}

/// The simulator of the previous executed case, kept so that the next case can also be executed on a *re-used*
/// simulator (`Sym::init` + `reset` + `finish`), which must give what a fresh `Sym::new` gives.
static PREV: std::sync::Mutex<Option<(Sym, String)>> = std::sync::Mutex::new(None);

thread_local! {
    /// set on the thread that repeats a case in isolation: it neither uses nor replaces the kept simulator
    pub static TWIN: std::cell::Cell<bool> = std::cell::Cell::new(false);
}

/// `Debug` of an interpreter with the entries of its macro table (a `HashMap`, iterated in an order that differs
/// from thread to thread) sorted: the entries are the top-level items between the braces that follow `macros: `.
fn sorted_macros(d: &str) -> String {
    let key = "macros: {";
    let start = match d.find(key) { Some(k) => k + key.len(), None => return d.to_string() };
    let bytes = d.as_bytes();
    let (mut depth, mut in_str, mut esc) = (0i32, false, false);
    let mut items: Vec<String> = vec![];
    let mut cur = String::new();
    let mut end = d.len();
    for (off, ch) in d[start..].char_indices() {
        let i = start + off;
        if in_str {
            cur.push(ch);
            if esc { esc = false; } else if ch == '\\' { esc = true; } else if ch == '"' { in_str = false; }
            continue;
        }
        match ch {
            '"' => { in_str = true; cur.push(ch); }
            '{' | '[' | '(' => { depth += 1; cur.push(ch); }
            '}' | ']' | ')' => {
                if depth == 0 { end = i; break; }
                depth -= 1; cur.push(ch);
            }
            ',' if depth == 0 => { items.push(cur.trim().to_string()); cur = String::new(); }
            _ => cur.push(ch),
        }
    }
    let _ = bytes;
    if !cur.trim().is_empty() { items.push(cur.trim().to_string()); }
    items.sort();
    format!("{}{}{}", &d[..start], items.join(", "), &d[end..])
}

fn finish_report(int: Int<'_>, seed: u64, label: &str) -> String {
    let int_again = int.clone();
    let rec = int.iter_ast().count();
    let fnv = |t: &str| t.bytes().fold(0xcbf29ce484222325u64, |h, b| (h ^ b as u64).wrapping_mul(0x100000001b3));
    let rec_hashes: Vec<u64> = int.iter_ast().map(|a| fnv(a.source())).collect();
    let rec_into: Vec<u64> = int.clone().into_iter_ast().map(|a| fnv(a.source())).collect();
    let qa = int.get_q_alias();
    let ca = int.get_c_alias();
    let tree = int.get_ops_tree();
    let mut sym = Sym::new(int);
    let _ = qvnt::verif::take_outcomes();
    sym.reset();
    sym.finish();
    let outs = qvnt::verif::take_outcomes();
    let c = sym.get_class();
    let raw = sym.verif_raw();
    let mut s = format!(
        "class {} {} q {}{} rec {} qa {} ca {} tree {} out {}",
        c.get(), c.num(), raw.len(), fmt_c(raw), rec, hex_str(&qa), hex_str(&ca), hex_str(&tree), outs.len()
    );
    for o in outs { s.push_str(&format!(" {}", o)); }
    // the record itself: FNV-1a of every recorded chunk's source, in record order, through both accessors
    s.push_str(&format!(" rech {}", rec_hashes.len()));
    for h in &rec_hashes { s.push_str(&format!(" {:016x}", h)); }
    s.push_str(if rec_into == rec_hashes { " reci 1" } else { " reci 0" });
    // the simulator's other accessors and its own measurement entry point, on a copy of the finished simulator:
    // probabilities / polar amplitudes agree with the raw state, and Sym::measure(q, c) writes the outcome of the
    // measured qubits into the paired classical bits in the session's mode
    {
        let mut probe = sym.clone();
        let n_q = raw.len().trailing_zeros() as usize;      // raw.len() = max(2^n, 8): only used for n >= 3
        let probs = probe.get_probabilities();
        let polar = probe.get_polar_wavefunction();
        let total: f64 = raw.iter().map(|z| z.norm_sqr()).sum();
        let mut ok = probs.len() == polar.len() && probs.len().is_power_of_two() && probs.len() <= raw.len()
            && (probs.len() == raw.len() || raw.len() == 8);
        for (i, (p, (r, _))) in probs.iter().zip(polar.iter()).enumerate() {
            let want = raw[i].norm_sqr() / total;
            if (p - want).abs() > 1e-12 || (r * r - raw[i].norm_sqr()).abs() > 1e-12 { ok = false; }
        }
        let _ = n_q;
        let width = (probs.len().trailing_zeros() as usize).min(c.num());
        if width > 0 {
            let (q_arg, c_arg) = ((1usize << width) - 1, (1usize << width) - 1);
            let before = probe.get_class().get();
            let _ = qvnt::verif::take_outcomes();
            probe.measure(q_arg, c_arg);
            let seen = qvnt::verif::take_outcomes();
            let v = seen.last().copied().unwrap_or(0) & q_arg;
            let want = if label.starts_with('x') { before ^ v } else { (before & !c_arg) | v };
            if probe.get_class().get() != want || seen.len() != 1 { ok = false; }
        }
        s.push_str(if ok { " acc 1" } else { " acc 0" });
    }
    // the same program on the simulator the previous case left behind
    if TWIN.with(|t| t.get()) {
        return s;
    }
    let mut prev = PREV.lock().unwrap_or_else(|e| e.into_inner());
    if let Some((mut old, old_label)) = prev.take() {
        qvnt::verif::seed(seed);
        let _ = qvnt::verif::take_outcomes();
        old.init(int_again);
        old.reset();
        old.finish();
        let _ = qvnt::verif::take_outcomes();
        let c2 = old.get_class();
        let raw2 = old.verif_raw();
        let same = c2.get() == c.get() && c2.num() == c.num() && raw2.len() == raw.len()
            && raw2.iter().zip(raw.iter()).all(|(a, b)| a.re.to_bits() == b.re.to_bits() && a.im.to_bits() == b.im.to_bits());
        if same {
            s.push_str(" reuse 1");
        } else {
            s.push_str(&format!(" reuse 0 class {} {} prev {}", c2.get(), c2.num(), old_label));
        }
    }
    *prev = Some((sym, label.to_string()));
    s
}

pub fn run(toks: &[&str]) -> String {
    let mut t = toks.iter().copied();
    match t.next().unwrap() {
        "run" => {
            let api = t.next().unwrap();
            // 0: overwrite mode; accumulate mode chosen 1: after the last chunk, 2: on the still empty session,
            // 3: after the first chunk
            let xor: u8 = t.next().unwrap().parse().unwrap();
            let seed: u64 = t.next().unwrap().parse().unwrap();
            let k = parse_n(t.next().unwrap());
            let srcs: Vec<String> = (0..k).map(|_| unhex_str(t.next().unwrap())).collect();
            qvnt::verif::seed(seed);
            let mut int = Int::default();
            if xor == 2 { int = int.xor(); }
            for (i, src) in srcs.iter().enumerate() {
                if xor == 3 && i == 1 { int = int.xor(); }
                let ast = match Ast::from_source(src) {
                    Ok(a) => a,
                    Err(e) => return format!("PARSE {} {:?}", i, e),
                };
                match api {
                    "add" => {
                        if let Err(e) = int.add_ast(ast) { return format!("ERR {} {:?}", i, e); }
                    }
                    "changes" | "prepend" => {
                        let mut ch = Int::default();
                        if let Err(e) = int.ast_changes(&mut ch, ast) { return format!("ERR {} {:?}", i, e); }
                        int = unsafe { if api == "changes" { int.append_int(ch) } else { ch.prepend_int(int) } };
                    }
                    _ => return "ERR api".into(),
                }
            }
            if xor == 1 || (xor == 3 && srcs.len() < 2) { int = int.xor(); }
            // execution is restricted to programs of simulable size
            let nq = int.get_q_alias().matches('"').count() / 2;
            if nq > 12 {
                return format!("OKNOEXEC {} {}", nq, hex_str(&int.get_ops_tree()));
            }
            format!("OK {}", finish_report(int, seed, &format!("{}{}", if xor != 0 { "x" } else { "" }, srcs.iter().map(|s| hex_str(s)).collect::<Vec<_>>().join("+"))))
        }
        "session" => {
            // a leading 'x' on the seed token: the session starts from Int::default().xor()
            let st = t.next().unwrap();
            let xor = st.starts_with('x');
            let seed: u64 = st.trim_start_matches('x').parse().unwrap();
            let k = parse_n(t.next().unwrap());
            let srcs: Vec<String> = (0..k).map(|_| unhex_str(t.next().unwrap())).collect();
            qvnt::verif::seed(seed);
            let mut int = Int::default();
            if xor { int = int.xor(); }
            let mut verdicts = vec![];
            let mut snaps = vec![];
            let snapshot = |int: &Int| {
                let mut snap = format!("{:?}|{}|{}|{}|{}", int.get_ops_tree(), int.get_q_alias(), int.get_c_alias(),
                                       int.iter_ast().count(), {
                    // Debug of the interpreter with the macro table in sorted order
                    sorted_macros(&format!("{:?}", int))
                });
                snap = snap.replace(' ', "");
                hex_str(&snap)
            };
            // snapshot 0: the session before any chunk; snapshot i+1: after chunk i
            snaps.push(snapshot(&int));
            for src in srcs.iter() {
                match Ast::from_source(src) {
                    Err(e) => verdicts.push(format!("parse:{}", hex_str(&format!("{:?}", e)))),
                    Ok(ast) => match int.add_ast(ast) {
                        Ok(()) => verdicts.push("ok".into()),
                        Err(e) => verdicts.push(format!("err:{}", hex_str(&format!("{:?}", e)))),
                    },
                }
                snaps.push(snapshot(&int));
            }
            format!("OK v {} {} snap {} | final {}", verdicts.len(), verdicts.join(" "), snaps.join("/"), finish_report(int, seed, if xor { "xsession" } else { "session" }))
        }
        "rerun" => {
            let seed: u64 = t.next().unwrap().parse().unwrap();
            let src = unhex_str(t.next().unwrap());
            let src2 = unhex_str(t.next().unwrap());
            // optional: accumulate mode of the program / of the other program (the simulator that is re-used)
            let x1 = t.next().map(|v| v == "1").unwrap_or(false);
            let x2 = t.next().map(|v| v == "1").unwrap_or(false);
            qvnt::verif::seed(seed);
            let ast = match Ast::from_source(&src) { Ok(a) => a, Err(e) => return format!("PARSE 0 {:?}", e) };
            let int = match Int::new(ast) { Ok(i) => i, Err(e) => return format!("ERR 0 {:?}", e) };
            let int = if x1 { int.xor() } else { int };
            let mut sym = Sym::new(int.clone());
            let mut outs = vec![];
            let mut report = |sym: &Sym| {
                let c = sym.get_class();
                format!("class {} {} q {}{}", c.get(), c.num(), sym.verif_raw().len(), fmt_c(sym.verif_raw()))
            };
            let _ = qvnt::verif::take_outcomes();
            // the run from Sym::new, without any reset
            sym.finish();
            outs.push(report(&sym));
            qvnt::verif::seed(seed);
            sym.reset(); sym.finish();
            outs.push(report(&sym));
            qvnt::verif::seed(seed);
            sym.reset(); sym.finish();
            outs.push(report(&sym));
            // init with the same interpreter keeps the simulator, with another one rebuilds it
            qvnt::verif::seed(seed);
            sym.init(int.clone());
            sym.reset(); sym.finish();
            outs.push(report(&sym));
            let ast2 = match Ast::from_source(&src2) { Ok(a) => a, Err(e) => return format!("PARSE 1 {:?}", e) };
            let int2 = match Int::new(ast2) { Ok(i) => i, Err(e) => return format!("ERR 1 {:?}", e) };
            let int2 = if x2 { int2.xor() } else { int2 };
            let mut sym2 = Sym::new(int2);
            sym2.reset(); sym2.finish();
            qvnt::verif::seed(seed);
            sym2.init(int);
            sym2.reset(); sym2.finish();
            outs.push(report(&sym2));
            let o = qvnt::verif::take_outcomes();
            format!("OK {} | nout {}", outs.join(" / "), o.len())
        }
        other => format!("ERR unknown-kind {}", other),
    }
}
