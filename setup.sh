#!/bin/bash
# Build the framework from files on disk only (offline): the Rust harness against /repo and the
# whole Coq development (full .vo build).
set -e
cd "$(dirname "$0")"
export CARGO_NET_OFFLINE=true
mkdir -p .cache evidence replays
cp /repo/Cargo.lock harness/Cargo.lock
( cd harness && CARGO_TARGET_DIR=../.cache/target RUSTFLAGS="--cfg qvnt_verif" cargo build --offline --quiet )
( cd coq && coq_makefile -f _CoqProject -o Makefile >/dev/null && timeout 3000 make -j16 >/dev/null )
echo "setup ok"
